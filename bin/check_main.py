#!/venv/bin/python
"""Launcher of the check driver (a real script file, so that the driver can
re-exec itself with the hash seed that belongs to the scenario seed)."""
import os
import sys
sys.path.insert(0, os.path.dirname(os.path.dirname(os.path.abspath(__file__))))
from fbsim.check import main  # noqa: E402
sys.exit(main())
