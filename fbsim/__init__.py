"""fbsim: deterministic simulation with fault injection for btrekkie/file-builder.

See /verif/DESIGN.md.  The package imports ``file_builder`` from the working
tree named by ``VERIF_REPO`` (default ``/repo``) at run time; nothing is built
or cached.
"""
import os
import sys

REPO = os.environ.get('VERIF_REPO', '/repo')


def import_repo():
    """Import (once) the file_builder package from the repository tree."""
    if REPO not in sys.path:
        sys.path.insert(0, REPO)
    import file_builder  # noqa: F401
    return file_builder
