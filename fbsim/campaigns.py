"""Which scenarios decide which property: campaigns, budgets, evidence rules."""
from . import gen
from .runner import run_scenario
from .util import digest

BUDGET = {'quick': 40.0, 'thorough': 600.0}
BUDGET_SCALE = {}

LEVEL = {
    'C01': 'exploration',
    'C02': 'fault_enumeration',
    'C14': 'fault_enumeration',
}

ASSUMPTIONS = [
    'sampling, not enumeration: a clean batch is evidence, not proof',
    'small-scope universe: <= 8 paths over <= 3 directory levels, <= 10 '
    'functions, <= 6 steps per history',
    'the reference model (fbsim/model.py) is a second implementation of the '
    'documented semantics and is itself trusted',
    'Linux, case-sensitive tmpfs, no symlinks; external changes only between '
    'builds; no process death',
]

RULES = {
    'C01': 'seeded histories of build/mutate/clean steps over generated '
           'programs, every build compared with the reference model (result, '
           'per-invocation observations, tree); non-trivial = distinct '
           'scenario digest in which at least one call was served from the '
           'cache and at least one was (re-)executed after the first build',
}


def nt_serve_and_exec(stats):
    return stats.get('served', 0) > 0 and stats.get('executed', 0) > 0 and \
        stats.get('builds', 0) > 1


def nt_rollback_restored(stats):
    return stats.get('rollbacks', 0) > 0 and stats.get('commits', 0) > 0


CAMPAIGNS = {
    'C02': [
        {'name': 'c02-crash-sweep', 'profile': 'C01', 'mode': 'crash-sweep',
         'nontrivial': nt_rollback_restored, 'weight': 1.0, 'chunk': 6,
         'sweep_max': {'quick': 16, 'thorough': None}, 'follow': 1,
         'params': {'p_mutate_step': 0.4, 'p_tamper': 0.5},
         'rule': 'generic histories; the last build is re-run from the '
                 'restored pre-state with a CrashError at every raise '
                 'opportunity (quick: <=16 evenly spaced incl. both ends), '
                 'then the un-faulted continuation must equal the baseline'},
    ],
    'C14': [
        {'name': 'c14-oserror-sweep', 'profile': 'C01',
         'mode': 'oserror-sweep', 'nontrivial': nt_rollback_restored,
         'weight': 1.0, 'chunk': 6, 'follow': 1,
         'sweep_max': {'quick': 16, 'thorough': None},
         'params': {'p_mutate_step': 0.4, 'p_tamper': 0.5, 'p_catch': 0.8},
         'rule': 'generic histories; the last build is re-run from the '
                 'restored pre-state with an OSError at every pre-commit '
                 'mutating call index (mkdtemp/mkdir/makedirs/rename/rmdir/'
                 'remove/cache open, write, close) plus torn cache writes'},
    ],
    'C01': [
        {'name': 'c01-generic', 'profile': 'C01', 'mode': 'plain',
         'nontrivial': nt_serve_and_exec, 'weight': 1.0,
         'rule': 'generic programs and histories'},
    ],
}


def for_property(prop):
    return CAMPAIGNS.get(prop, [])


def get(prop, name):
    for c in CAMPAIGNS[prop]:
        if c['name'] == name:
            return c
    raise KeyError(name)


def summarize(sc):
    """Compact human-readable form of a scenario for evidence samples."""
    return {
        'profile': sc.get('profile'), 'seed': sc.get('seed'),
        'cache': sc['config'].get('cache_rel'),
        'init': sc.get('init'),
        'roots': sc['roots'],
        'funcs': {k: v['variants'] for k, v in sorted(sc['funcs'].items())},
        'steps': sc['steps'],
        'mode': sc.get('mode', 'plain'),
        'fault_step': sc.get('fault_step'), 'sweep': sc.get('sweep'),
    }


def run_any(sc):
    mode = sc.get('mode', 'plain')
    if mode in ('plain', 'fault'):
        return run_scenario(sc)
    raise ValueError('unknown scenario mode %r' % (mode,))


def run_case(camp, seed, tier='quick'):
    sc = gen.generate(camp['profile'], seed, camp.get('params'))
    post = camp.get('post')
    if post is not None:
        sc = post(sc, seed)
    out = {'runs': 0, 'stats': {}, 'violations': [], 'invalid': 0,
           'errors': [], 'verdicts': [], 'nontrivial': False,
           'shape': None, 'log_digest': None, 'sample': None}
    mode = camp.get('mode', 'plain')
    if mode == 'plain':
        res = run_scenario(sc)
        _account(out, sc, res, camp)
    elif mode in ('crash-sweep', 'oserror-sweep'):
        builds = [i for i, s in enumerate(sc['steps']) if s['op'] == 'build']
        pick = camp.get('fault_step', 'last')
        fs = builds[-1] if pick == 'last' else builds[seed % len(builds)]
        sc['mode'] = 'fault'
        sc['fault_step'] = fs
        sc['follow'] = camp.get('follow', 1)
        sc['sweep'] = 'crash' if mode == 'crash-sweep' else 'oserror'
        cap = camp.get('sweep_max', {}).get(tier)
        if cap is not None:
            sc['sweep_max'] = cap
        if mode == 'oserror-sweep':
            sc['errnos'] = camp.get('errnos', ['ENOSPC', 'EACCES', 'EIO'])
            sc['torn'] = camp.get('torn', True)
        res = run_scenario(sc)
        if res['verdict'] == 'violation' and res.get('fault') is not None:
            # the replayable form carries the one fault that failed
            sc = dict(sc)
            sc.pop('sweep', None)
            sc.pop('sweep_max', None)
            sc['fault'] = res['fault']
        _account(out, sc, res, camp)
        out['runs'] += res.get('runs', 1) - 1
    else:
        raise ValueError(mode)
    if seed % 97 == 0:
        out['sample'] = summarize(sc)
    return out


def _account(out, sc, res, camp):
    out['runs'] += 1
    out['verdicts'].append(res['verdict'])
    out['log_digest'] = res.get('log_digest')
    out['stats'] = res.get('stats', {})
    if res['verdict'] == 'violation':
        out['violations'].append((sc, res))
    elif res['verdict'] == 'invalid':
        out['invalid'] += 1
    elif res['verdict'] == 'error':
        out['errors'].append({'seed': sc.get('seed'),
                              'error': res.get('error')})
    if res['verdict'] in ('ok', 'violation'):
        if camp['nontrivial'](res.get('stats', {})):
            out['nontrivial'] = True
            out['shape'] = digest(
                {k: sc[k] for k in ('init', 'funcs', 'roots', 'steps',
                                    'config')}, 12)


def trigger_matches(known, vio):
    """Known-finding signature beyond (oracle, key): named predicates."""
    trig = known.get('trigger')
    if not trig:
        return True
    d = vio.get('detail', {})
    for k, v in trig.items():
        if d.get(k) != v:
            return False
    return True
