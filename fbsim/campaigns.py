"""Which scenarios decide which property: campaigns, budgets, evidence rules."""
from . import gen
from .runner import run_scenario
from .util import digest

BUDGET = {'quick': 75.0, 'thorough': 600.0}
# (a property's budget is split over its campaigns by weight: properties
# with many campaigns get more wall time)
BUDGET_SCALE = {'C10': 1.75, 'C03': 1.75, 'C01': 1.5, 'C04': 1.5,
                'C14': 1.5, 'C02': 1.5, 'C12': 1.5, 'C09': 1.5,
                'C08': 1.25, 'C13': 1.25, 'C16': 1.25, 'C05': 1.25}

LEVEL = {
    'C02': 'fault_enumeration', 'C14': 'fault_enumeration',
    'C10': 'fault_enumeration',
}

ASSUMPTIONS = [
    'sampling, not enumeration: a clean batch is evidence, not proof',
    'small-scope universe: <= 8 paths over <= 3 directory levels, <= 10 '
    'functions, <= 6 steps per history',
    'the reference model (fbsim/model.py) is a second implementation of the '
    'documented semantics and is itself trusted',
    'Linux, case-sensitive tmpfs, no symlinks; external changes only between '
    'builds; no process death',
]

NT_RULES = {
    'nt_serve_and_exec': 'non-trivial = at least two builds, at least one '
                         'call served from the cache and one (re-)executed',
    'nt_rollback_restored': 'non-trivial = at least one commit and one '
                            'rolled-back (fault-injected) build',
    'nt_any_build': 'non-trivial = at least one executed cacheable call',
    'nt_clean': 'non-trivial = a clean after at least one commit',
    'nt_refused': 'non-trivial = at least one refusal step executed',
    'nt_threads': 'non-trivial = a build with >1 simulated thread and >2 '
                  'context switches',
}

RULES = {
    'C01': 'seeded histories of build/mutate/clean steps over generated '
           'programs, every build compared with the reference model (result, '
           'per-invocation observations, tree); non-trivial = distinct '
           'scenario digest in which at least one call was served from the '
           'cache and at least one was (re-)executed after the first build',
}


def nt_serve_and_exec(stats):
    return stats.get('served', 0) > 0 and stats.get('executed', 0) > 0 and \
        stats.get('builds', 0) > 1


REBUILD_HEAVY = dict(
    n_steps=(3, 7), p_mutate_step=0.15, n_muts=(1, 1), n_groups=(1, 1),
    n_file_funcs=(1, 3), n_sub_funcs=(1, 2), n_paths=(3, 6),
    p_q_near_output=0.85, p_version_change=0.05, p_clean_step=0.03)
FAILURE_HEAVY = dict(
    w_bf=34, w_sb=20, w_raise=12, w_q=30, p_catch=0.8, p_write_never=0.1,
    p_write_unlink=0.06, p_nonjson=0.06, n_steps=(3, 6), p_mutate_step=0.2,
    n_groups=(1, 1), n_paths=(3, 6), p_q_near_output=0.8, max_nest=4)


FOREIGN_HEAVY = dict(
    n_init=(3, 8), p_plant=0.5, p_mutate_step=0.45, p_clean_step=0.12,
    n_steps=(3, 7), p_tamper=0.4, n_paths=(4, 8), p_catch=0.7,
    cache_rels=['../cache.gz', 'cache.gz', 'cache.gz', '../cd/cache.gz'])
VIEW_HEAVY = dict(
    w_probe=14, w_q=30, w_bf=26, w_sb=10, w_raise=9, p_catch=0.85,
    p_write_never=0.08, p_write_unlink=0.06, n_paths=(3, 6),
    n_steps=(2, 5), p_mutate_step=0.3, p_q_near_output=0.8, n_groups=(1, 2),
    max_nest=4, query_kinds=['exists', 'is_file', 'is_dir', 'list_dir',
                             'walk', 'walk_bu', 'read_text', 'declare_read',
                             'get_size'])
EFFECT_HEAVY = dict(
    n_steps=(4, 8), p_mutate_step=0.3, n_muts=(1, 1), n_groups=(1, 1),
    n_paths=(3, 7), p_q_near_output=0.7, p_version_change=0.0,
    p_clean_step=0.0, p_catch=0.8, w_raise=8, p_hash=0.4, p_tamper=0.2,
    mutation_ops=['write', 'rm', 'mkdir', 'touch', 'write'])
VERSION_HEAVY = dict(
    p_weird_names=0.3,
    p_version_change=0.7, n_steps=(3, 7), p_mutate_step=0.1,
    p_two_variants=0.9, n_groups=(1, 1), w_bf=28, w_sb=24, w_q=30,
    p_catch=0.8, n_paths=(3, 6), max_nest=4, p_clean_step=0.0)
IDENTITY_HEAVY = dict(
    args_pool='rich', w_dup=18, w_bf=24, w_sb=30, w_q=14, p_catch=0.9,
    p_spelling=0.5, p_q_spelling=0.3, p_chdir_step=0.25, n_steps=(2, 5),
    p_mutate_step=0.1, n_groups=(1, 1), n_paths=(3, 5), w_raise=2,
    p_ret_val=0.3, w_mut=8)
DUP_HEAVY = dict(
    w_dup=22, w_bf=26, w_sb=24, w_q=18, p_catch=0.85, n_steps=(3, 6),
    p_mutate_step=0.15, n_groups=(1, 2), n_paths=(3, 6), w_raise=8,
    p_two_variants=0.6, p_version_change=0.15, p_cycle=0.3,
    p_switch_root=0.5)
BYVALUE_HEAVY = dict(
    w_mut=22, w_bf=22, w_sb=22, w_q=24, p_ret_val=0.6, args_pool='rich',
    query_kinds=['list_dir', 'walk', 'walk_bu', 'exists', 'is_dir'],
    n_steps=(3, 6), p_mutate_step=0.1, n_groups=(1, 1), n_paths=(3, 6),
    p_catch=0.8, w_raise=3, p_q_near_output=0.8)
CLEAN_HEAVY = dict(
    p_clean_step=0.35, p_double_clean=0.3, n_steps=(3, 8),
    p_mutate_step=0.3, p_plant=0.3, n_init=(0, 6), p_tamper=0.4,
    p_catch=0.8, w_raise=8,
    cache_rels=['../cache.gz', 'cache.gz', '../cd/cache.gz'])
COMPARISON_HEAVY = dict(
    p_hash=0.5, mutation_ops=['touch', 'touch', 'stealth', 'stealth',
                              'write', 'write', 'rm'],
    p_tick0=0.3, p_tick_back=0.1, n_steps=(3, 7), p_mutate_step=0.45,
    n_muts=(1, 2), p_tamper=0.6, n_groups=(1, 1), n_paths=(3, 6),
    query_kinds=['read_text', 'read_binary', 'declare_read', 'get_size',
                 'exists', 'list_dir', 'walk', 'read_text', 'declare_read'],
    p_q_near_output=0.7, n_init=(1, 4), p_catch=0.8, w_raise=3,
    p_version_change=0.0, p_clean_step=0.0)
REFUSE_HEAVY = dict(
    p_refuse_step=0.5, n_steps=(3, 7), p_mutate_step=0.15, n_init=(0, 4),
    n_groups=(1, 1), p_clean_step=0.05,
    cache_rels=['../cache.gz', 'cache.gz', '../cd/cache.gz'])
PERSIST_HEAVY = dict(
    p_ret_val=0.7, args_pool='rich', names=['a b', '\u00e9', '.h', 'c',
                                            '-x', 'x' * 60, '\U0001f600',
                                            '{0}', '%s', 'q"q', "q'q",
                                            't\tb', 'n\nl', '\\b', '..c',
                                            'e\u0301', '\udce9t', 'n\udcff'],
    n_steps=(3, 6), p_mutate_step=0.1, p_clean_step=0.15, w_raise=6,
    p_catch=0.85, p_version_change=0.2, n_groups=(1, 1), p_nonjson=0.02)


SWAP_HEAVY = dict(
    n_groups=(2, 2), p_swap_groups=1.0, p_switch_root=0.6, n_steps=(3, 7),
    p_mutate_step=0.2, n_paths=(3, 6), p_catch=0.85, w_raise=9,
    p_write_never=0.08, p_q_near_output=0.85, w_probe=5, w_q=36,
    p_clean_step=0.08, n_init=(0, 3))
SWAP_DENSE = dict(
    SWAP_HEAVY, p_swap_dense=1.0, p_switch_root=0.9, n_steps=(3, 6),
    p_mutate_step=0.2, p_clean_step=0.05, w_raise=5, max_nest=1,
    p_write_never=0.04, p_dir2file=0.5)
OVERLAP = dict(
    p_overlap_struct=0.25, p_self_list=0.2, p_anc_target=0.35, w_bf=36, w_sb=10, w_q=26, w_raise=10, p_catch=0.9,
    p_write_never=0.15, p_write_unlink=0.05, n_paths=(3, 5), n_init=(1, 5),
    n_steps=(2, 5), p_mutate_step=0.3, p_tamper=0.5, n_groups=(1, 1),
    p_q_near_output=0.8, w_probe=4, p_plant=0.2)
NESTED_FAIL = dict(
    FAILURE_HEAVY, p_fail_after_nested=0.5, n_steps=(3, 6),
    p_chain_family=0.55,
    p_mutate_step=0.1, p_clean_step=0.25, w_probe=4, p_chain=0.7,
    n_paths=(2, 5), n_init=(0, 2))


def camp(name, profile, params, rule, **kw):
    d = {'name': name, 'profile': profile, 'mode': 'plain',
         'nontrivial': nt_serve_and_exec, 'weight': 1.0, 'params': params,
         'rule': rule}
    d.update(kw)
    return d


def nt_any_build(stats):
    return stats.get('builds', 0) > 0 and stats.get('executed', 0) > 0


def nt_threads(stats):
    sc = stats.get('schedules', {})
    return sc.get('builds_with_threads', 0) > 0 and sc.get('switches', 0) > 2


def nt_clean(stats):
    return stats.get('cleans', 0) > 0 and stats.get('commits', 0) > 0


def nt_refused(stats):
    return stats.get('refused', 0) > 0


def nt_rollback_restored(stats):
    return stats.get('rollbacks', 0) > 0 and stats.get('commits', 0) > 0


# Campaigns that combine dimensions no single property quantifies over
# (thread schedules x injected OS errors).  They are not part of any registered
# check - a violation there is a lead, not a verdict - and run only when named
# with --campaign.  c09-threads-oserror found defect F16.
EXPLORATORY = {}

CAMPAIGNS = {
    'C02': [
        {'name': 'c02-crash-sweep', 'profile': 'C01', 'mode': 'crash-sweep',
         'nontrivial': nt_rollback_restored, 'weight': 1.0, 'chunk': 6,
         'sweep_max': {'quick': 16, 'thorough': None}, 'follow': 1,
         'params': {'p_mutate_step': 0.4, 'p_tamper': 0.5},
         'rule': 'generic histories; the last build is re-run from the '
                 'restored pre-state with a CrashError at every raise '
                 'opportunity (quick: <=16 evenly spaced incl. both ends), '
                 'then the un-faulted continuation must equal the baseline'},
    ],
    'C14': [
        {'name': 'c14-oserror-sweep', 'profile': 'C01',
         'mode': 'oserror-sweep', 'nontrivial': nt_rollback_restored,
         'weight': 1.0, 'chunk': 6, 'follow': 1,
         'sweep_max': {'quick': 16, 'thorough': None},
         'params': {'p_mutate_step': 0.4, 'p_tamper': 0.5, 'p_catch': 0.8},
         'rule': 'generic histories; the last build is re-run from the '
                 'restored pre-state with an OSError at every pre-commit '
                 'mutating call index (mkdtemp/mkdir/makedirs/rename/rmdir/'
                 'remove/cache open, write, close) plus torn cache writes'},
    ],
    'C03': [
        {'name': 'c03-foreign', 'profile': 'C03', 'mode': 'plain',
         'nontrivial': nt_serve_and_exec, 'weight': 2.0,
         'params': FOREIGN_HEAVY, 'foreign_live': True,
         'rule': 'foreign files/dirs planted inside created directories, at '
                 'former output positions and next to the cache; commits, '
                 'rollbacks, swaps and clean; every foreign file stat-ed at '
                 'every statement and compared (bytes, mtime, inode) after '
                 'every call'},
        {'name': 'c03-crash', 'profile': 'C03', 'mode': 'crash-sweep',
         'nontrivial': nt_rollback_restored, 'weight': 1.0, 'chunk': 6,
         'params': FOREIGN_HEAVY, 'foreign_live': True,
         'sweep_max': {'quick': 10, 'thorough': None},
         'rule': 'same, with the last build crashed at every raise '
                 'opportunity (rollback must bring overwritten foreign files '
                 'back)'},
    ],
    'C04': [
        {'name': 'c04-view', 'profile': 'C04', 'mode': 'plain',
         'nontrivial': nt_any_build, 'weight': 2.0, 'params': VIEW_HEAVY,
         'rule': 'query-dominated programs with probe batteries (6 query '
                 'kinds x every path of the universe) before/inside/after '
                 'nested build_file calls that succeed or fail in every mode; '
                 'answers compared with the model and checked for mutual '
                 'consistency'},
        {'name': 'c04-generic', 'profile': 'C01', 'mode': 'plain',
         'nontrivial': nt_serve_and_exec, 'weight': 1.0,
         'params': FAILURE_HEAVY, 'rule': 'failure-heavy generic programs'},
    ],
    'C05': [
        {'name': 'c05-effect', 'profile': 'C05', 'mode': 'plain',
         'nontrivial': nt_serve_and_exec, 'weight': 2.0,
         'params': EFFECT_HEAVY,
         'rule': '4-8 steps: unchanged rebuilds and single mutations of '
                 'observed / unobserved paths; every function entry must be '
                 'justified by the incremental model (M2); served outputs '
                 'keep inode and mtime'},
        {'name': 'c05-failures', 'profile': 'C05', 'mode': 'plain',
         'nontrivial': nt_serve_and_exec, 'weight': 1.0,
         'params': dict(FAILURE_HEAVY, n_steps=(3, 6), p_mutate_step=0.1),
         'rule': 'records with nested caught failures'},
        {'name': 'c05-view', 'profile': 'C05', 'mode': 'plain',
         'nontrivial': nt_serve_and_exec, 'weight': 1.0,
         'params': dict(VIEW_HEAVY, n_steps=(3, 5), p_mutate_step=0.1,
                        w_probe=6),
         'rule': 'records dominated by listings/walks of directories that '
                 'the record itself creates'},
    ],
    'C06': [
        {'name': 'c06-versions', 'profile': 'C06', 'mode': 'plain',
         'nontrivial': nt_serve_and_exec, 'weight': 1.0,
         'params': VERSION_HEAVY, 'post': 'tag_versions',
         'rule': 'call graphs of depth <= 4, version maps changing between '
                 'builds (absent/None/scalars/nested, JSON-equal respellings '
                 'and near misses); executed set and results compared with '
                 'the model'},
    ],
    'C07': [
        {'name': 'c07-identity', 'profile': 'C07', 'mode': 'plain',
         'nontrivial': nt_any_build, 'weight': 1.0,
         'params': IDENTITY_HEAVY, 'post': 'tag_all:C07',
         'rule': 'arguments from a JSON grammar incl. python-only shapes, '
                 'repeated calls with equal / near-miss keys in the same and '
                 'in later builds, path spellings (bytes, PathLike, '
                 'redundant separators, .., relative after chdir)'},
    ],
    'C08': [
        {'name': 'c08-dups', 'profile': 'C08', 'mode': 'plain',
         'nontrivial': nt_serve_and_exec, 'weight': 1.0,
         'params': DUP_HEAVY, 'post': 'tag_all:C08',
         'rule': 'duplicate build_file/subbuild calls at every placement '
                 '(same level, nested, other subtree, first occurrence '
                 'cached / rebuilt / failed) across 3-6 builds'},
    ],
    'C10': [
        {'name': 'c10-contract', 'profile': 'C10', 'mode': 'plain',
         'nontrivial': nt_any_build, 'weight': 2.0,
         'params': dict(VIEW_HEAVY, w_probe=8, p_mutate_step=0.4,
                        p_tamper=0.5, n_init=(0, 5), p_prefix_names=0.4,
                        p_tick0=0.2, p_hash=0.5),
         'post': 'tag_all:C10',
         'rule': 'build_file at depth 1-3 over prior states of target and '
                 'ancestors x failure modes; physical and virtual state '
                 'checked right after each call and at commit'},
        {'name': 'c10-mkdir-faults', 'profile': 'C10',
         'mode': 'oserror-sweep', 'nontrivial': nt_rollback_restored,
         'weight': 1.0, 'chunk': 6,
         'sweep_max': {'quick': 12, 'thorough': None},
         'params': dict(FAILURE_HEAVY, p_catch=0.9), 'post': 'tag_all:C10',
         'errnos': ['ENOSPC', 'EACCES', 'ENAMETOOLONG'], 'torn': False,
         'rule': 'mkdir/rename/rmdir failing at each level'},
    ],
    'C11': [
        {'name': 'c11-byvalue', 'profile': 'C11', 'mode': 'plain',
         'nontrivial': nt_serve_and_exec, 'weight': 1.0,
         'params': BYVALUE_HEAVY, 'post': 'tag_all:C11',
         'rule': 'in-place mutation of arguments inside the callee, of '
                 'values returned by build_file/subbuild (fresh and served) '
                 'and of list_dir/walk results, followed by more builds'},
    ],
    'C12': [
        {'name': 'c12-clean', 'profile': 'C12', 'mode': 'plain',
         'nontrivial': nt_clean, 'weight': 1.0, 'params': CLEAN_HEAVY,
         'post': 'tag_after_clean',
         'rule': 'clean at random positions (after commits, rollbacks, '
                 'tampering, another clean, without cache) followed by '
                 'builds; tree compared with the model, foreign files with '
                 'the pre-state'},
    ],
    'C13': [
        {'name': 'c13-comparison', 'profile': 'C13', 'mode': 'plain',
         'nontrivial': nt_serve_and_exec, 'weight': 1.0,
         'params': COMPARISON_HEAVY, 'post': 'tag_all:C13',
         'rule': 'touch / stealth (content changed, size and mtime kept) / '
                 'write / stalled and backward clock, for inputs, outputs '
                 'and outputs read back, HASH and METADATA mixed'},
    ],
    'C15': [
        {'name': 'c15-refusals', 'profile': 'C15', 'mode': 'plain',
         'nontrivial': nt_refused, 'weight': 1.0, 'params': REFUSE_HEAVY,
         'rule': '25 refusal classes (cache truncation / bit flips / wrong '
                 'gzip / wrong JSON / other software / newer version / '
                 'directory at cache path / wrong build name / wrong-typed '
                 'arguments of build_versioned and clean) on top of '
                 'histories with outputs; whole sandbox compared bit for bit'},
    ],
    'C16': [
        {'name': 'c16-persist', 'profile': 'C16', 'mode': 'plain',
         'nontrivial': nt_serve_and_exec, 'weight': 2.0,
         'params': PERSIST_HEAVY, 'post': 'tag_all:C16',
         'rule': 'return values from the JSON grammar and output names with '
                 'spaces / non-ASCII / leading dots / long components at '
                 'every nesting position; served values compared with exact '
                 'types'},
        {'name': 'c16-write-faults', 'profile': 'C16',
         'mode': 'oserror-sweep', 'nontrivial': nt_rollback_restored,
         'weight': 1.0, 'chunk': 6, 'only_calls': ['@cache'],
         'sweep_max': {'quick': 12, 'thorough': None},
         'params': PERSIST_HEAVY, 'post': 'tag_all:C16',
         'rule': 'cache write failing / torn at open, write, close with and '
                 'without a previous cache'},
    ],
    'C01': [
        {'name': 'c01-generic', 'profile': 'C01', 'mode': 'plain',
         'nontrivial': nt_serve_and_exec, 'weight': 1.0,
         'rule': 'generic programs and histories'},
        {'name': 'c01-differential', 'profile': 'C01', 'mode': 'plain',
         'nontrivial': nt_serve_and_exec, 'weight': 1.0,
         'scratch_diff': True, 'params': REBUILD_HEAVY,
         'rule': 'model-free differential after every cached build: the '
                 'same build is re-run by the implementation itself on the '
                 'restored pre-state without the previous outputs, cache '
                 'and emptied created directories; value, exception type '
                 'and tree must be equal'},
        {'name': 'c01-rebuilds', 'profile': 'C01', 'mode': 'plain',
         'nontrivial': nt_serve_and_exec, 'weight': 1.0,
         'params': REBUILD_HEAVY,
         'rule': 'few functions, 3-7 builds with rare single mutations, '
                 'queries aimed at outputs and their ancestors'},
        {'name': 'c01-failures', 'profile': 'C01', 'mode': 'plain',
         'nontrivial': nt_serve_and_exec, 'weight': 1.0,
         'params': FAILURE_HEAVY,
         'rule': 'deep nesting of build_file/subbuild with caught and '
                 'uncaught failures at every level'},
    ],
}


THREAD_RULE = ('2-3 simulated threads issue independent build_file / '
               'subbuild / query operations (distinct outputs sharing new or '
               'stale parent directories, failing outputs, nested outputs) on '
               'one builder; seeded random, PCT and single-preemption '
               'schedules at every lock operation, library file-system call '
               'and statement; compared with the sequential model, followed '
               'by rebuilds and clean')
CAMPAIGNS['C09'] = [
    camp('c09-threads', 'threads', {}, THREAD_RULE, nontrivial=nt_threads,
         post='tag_all:C09', weight=2.0),
    camp('c09-threads-crash', 'threads', {'p_tamper': 0.7}, THREAD_RULE +
         '; last build crashed at every raise opportunity',
         mode='crash-sweep', nontrivial=nt_threads, chunk=4,
         fault_step='lastbuild', post='tag_all:C09',
         sweep_max={'quick': 8, 'thorough': None}, follow=1),
]
CAMPAIGNS['C09'].append(
    camp('c09-preemption-sweep', 'threads', {}, THREAD_RULE +
         '; single-preemption sweep: in the first threaded build thread a is '
         'pre-empted at its i-th yield point for every (a, i) (quick: 12 '
         'sampled points per scenario; thorough: all)',
         mode='sched-sweep', nontrivial=nt_threads, chunk=3,
         post='tag_all:C09', sweep_max={'quick': 12, 'thorough': None}))
CAMPAIGNS['C10'].append(
    camp('c10-threads', 'threads', {'p_fail': 0.55, 'n_threads': (2, 3)},
         'the build_file contract under concurrent use: 2-3 simulated '
         'threads build (and fail to build) files in shared new directory '
         'chains; failed outputs must leave no directories behind, in the '
         'view at once and on disk at the end', nontrivial=nt_threads,
         post='tag_all:C10', weight=0.7))
CAMPAIGNS['C09'].append(
    camp('c09-duplicates', 'threads', {'p_same_key': 1.0},
         'the same build_file path / subbuild key issued from 2-4 threads '
         '(duplicates are part of C09\'s scenario space): one execution, the '
         'others rejected, the winner\'s output and record intact, rebuild '
         'and clean as after a sequential build', nontrivial=nt_threads,
         post='tag_all:C09', weight=0.6))
EXPLORATORY.setdefault('C09', []).append(
    camp('c09-threads-oserror', 'threads', {'p_tamper': 0.6}, THREAD_RULE +
         '; OSError at every pre-commit mutating call index of the last '
         'build (one thread\'s internal failure must not disturb the others)',
         mode='oserror-sweep', nontrivial=nt_threads, chunk=4,
         fault_step='lastbuild', post='tag_all:C09', torn=False,
         errnos=['ENOSPC', 'EACCES'], crash_end=True, weight=0.7,
         sweep_max={'quick': 8, 'thorough': None}, follow=1))
EXPLORATORY.setdefault('C08', []).append(
    camp('c08-threads-crash', 'threads', {'p_same_key': 1.0, 'p_tamper': 0.7},
         'same key from 2-4 threads, last build crashed at every raise '
         'opportunity', mode='crash-sweep', nontrivial=nt_threads, chunk=4,
         fault_step='lastbuild', post='tag_all:C08',
         sweep_max={'quick': 10, 'thorough': None}, follow=1))
EXPLORATORY.setdefault('C08', []).append(
    camp('c08-threads-oserror', 'threads',
         {'p_same_key': 1.0, 'p_tamper': 0.6},
         'same key from 2-4 threads with an OSError at every pre-commit '
         'mutating call index of the last build (a loser or winner failing '
         'in setup must not disturb the other)', mode='oserror-sweep',
         nontrivial=nt_threads, chunk=4, fault_step='lastbuild',
         post='tag_all:C08', torn=False, errnos=['ENOSPC', 'EACCES'],
         crash_end=True, weight=0.6,
         sweep_max={'quick': 8, 'thorough': None}, follow=1))
CAMPAIGNS['C08'].append(
    camp('c08-preemption-sweep', 'threads', {'p_same_key': 1.0},
         'same key from 2-3 threads, single-preemption sweep of the first '
         'threaded build', mode='sched-sweep', nontrivial=nt_threads,
         chunk=3, post='tag_all:C08',
         sweep_max={'quick': 12, 'thorough': None}))
CAMPAIGNS['C08'].append(
    camp('c08-threads', 'threads', {'p_same_key': 1.0},
         'two or three simulated threads issue the same build_file / '
         'subbuild key under seeded schedules: exactly one execution, the '
         'others get RuntimeError, the winner is intact',
         nontrivial=nt_threads, post='tag_all:C08'))
CAMPAIGNS['C16'].append(camp(
    'c16-edited-values', 'C16', dict(PERSIST_HEAVY, w_mut=14, p_ret_val=0.85,
                                     p_mutate_step=0.05),
    'user code edits the values it got back (returned lists / dicts, '
    'arguments) while rich values are persisted over 3-6 builds: what a '
    'later build serves must equal what the function originally returned',
    post='tag_all:C16', weight=0.8))
CAMPAIGNS['C01'].append(camp(
    'c01-edits', 'C01', dict(BYVALUE_HEAVY, p_mutate_step=0.3, p_stepargs=0.5,
                             query_kinds=gen.DEFAULT['query_kinds']),
    'generic programs whose functions edit in place what they received '
    '(list / dict arguments) and what they got back, over 3-6 builds with '
    'external changes; call sites whose arguments change from build to '
    'build, also between a container and its edited form', weight=0.6))
CAMPAIGNS['C03'].append(
    camp('c03-threads-crash', 'threads', {'p_foreign': 0.9, 'p_fail': 0.15},
         '2-4 simulated threads overwrite foreign files at their targets '
         '(each moves one aside concurrently), the last build is crashed at '
         'every raise opportunity: every foreign file is back afterwards',
         mode='crash-sweep', nontrivial=nt_threads, chunk=4,
         fault_step='lastbuild', post='tag_all:C03', weight=0.6,
         sweep_max={'quick': 10, 'thorough': None}, follow=1))
DEP_RULE = ('threads of one build whose operations depend on each other, '
            'ordered by user-level events: one thread builds a file and '
            'signals, another waits and then reads / lists it (directly or in '
            'a subbuild); model-free oracle: no deadlock or spurious '
            'exception, every key performed once, the following unchanged '
            'sequential rebuild re-executes nothing, clean removes everything')
CAMPAIGNS['C09'].append(
    camp('c09-dependent', 'dep', {}, DEP_RULE, nontrivial=nt_threads,
         post='tag_all:C09', weight=0.6))
CAMPAIGNS['C05'].append(
    camp('c05-threads-dependent', 'dep', {}, DEP_RULE, nontrivial=nt_threads,
         post='tag_all:C05', weight=0.4))
CAMPAIGNS['C12'].append(
    camp('c12-threads', 'threads',
         {'p_fail': 0.45, 'n_threads': (2, 3), 'p_in_sub': 0.1,
          'p_in_file': 0.1},
         'clean after builds in which 2-3 simulated threads created shared '
         'new directory chains (two and more missing levels, some outputs '
         'failing): every directory the build created is recorded by exactly '
         'one claim and removed by clean', nontrivial=nt_threads,
         post='tag_all:C12', weight=0.6))
CAMPAIGNS['C09'].append(
    camp('c09-many-threads', 'threads', {'n_threads': (5, 8)},
         THREAD_RULE + '; 5-8 threads (up to 24 operations) in one to three '
         'shared directory chains', nontrivial=nt_threads,
         post='tag_all:C09', weight=0.4))
CAMPAIGNS['C07'].append(
    camp('c07-threads', 'threads', {'p_same_key': 1.0, 'p_spell': 0.8},
         'cache identity under concurrency: 2-4 simulated threads issue one '
         'key spelled differently (1 / 1.0, tuple / list, key order, '
         'non-string keys; bytes / PathLike / redundant separators / ".." '
         'paths): exactly one execution, the others get RuntimeError',
         nontrivial=nt_threads, post='tag_all:C07', weight=0.5))
CAMPAIGNS['C16'].append(
    camp('c16-wide-write-faults', 'wide', {},
         'the cache write fails (open / write / close, torn) at the end of a '
         'build that moved more than 128 files aside: the previous cache '
         'file and every output are back', mode='oserror-sweep',
         nontrivial=nt_rollback_restored, chunk=1, follow=1, weight=0.4,
         only_calls=['gzopen_w', 'gzwrite', 'gzclose'], post='tag_all:C16',
         sweep_max={'quick': 3, 'thorough': None}))
CAMPAIGNS['C10'].append(camp(
    'c10-chains-faults', 'C10',
    dict(NESTED_FAIL, p_chain=0.9, p_mutate_step=0.05, p_clean_step=0.0,
         n_steps=(2, 4), p_catch=0.95),
    'chains of three and more nested build_file / subbuild calls in '
    'directories the build creates, last build mostly an unchanged rebuild '
    '(cached trees are re-applied): mkdir / rename failing at every index, '
    'caught by the caller - the directories of the failed call are gone at '
    'once in the view and on disk at the end',
    mode='oserror-sweep', nontrivial=nt_rollback_restored, chunk=6, follow=1,
    torn=False, errnos=['ENOSPC', 'EACCES'], post='tag_all:C10', weight=0.7,
    sweep_max={'quick': 12, 'thorough': None}))
CAMPAIGNS['C02'].append(
    camp('c02-threads-crash', 'threads',
         {'p_foreign': 0.6, 'p_tamper': 0.7, 'p_fail': 0.15, 'p_one_dir': 0.6,
          'n_threads': (2, 3)},
         'builds in which 2-4 simulated threads move previous outputs and '
         'foreign files aside concurrently, crashed at every raise '
         'opportunity of the last build: every file is back afterwards',
         mode='crash-sweep', nontrivial=nt_threads, chunk=4,
         fault_step='any', post='tag_all:C02', weight=1.2,
         sweep_max={'quick': 10, 'thorough': None}, follow=1))
CAMPAIGNS['C13'].append(camp(
    'c13-retry-faults', 'C13',
    dict(COMPARISON_HEAVY, p_retry=0.5, p_catch=0.95, p_hash=0.7, w_bf=40,
         n_steps=(3, 5), p_mutate_step=0.6, p_tamper=0.8, w_raise=2),
    'HASH / METADATA outputs tampered with between builds (also with size '
    'and mtime preserved), and the move-aside / mkdir of the rebuilding call '
    'fails once: the program retries build_file; the comparison result '
    'recorded for the retried output is that of the new content (the next '
    'unchanged build re-executes nothing, a repeated tamper is detected)',
    mode='oserror-sweep', nontrivial=nt_rollback_restored, chunk=6, follow=1,
    torn=False, errnos=['EACCES', 'ENOSPC'], post='tag_all:C13', weight=0.7,
    sweep_max={'quick': 12, 'thorough': None}))
CAMPAIGNS['C07'].append(camp(
    'c07-chdir', 'C07',
    dict(IDENTITY_HEAVY, p_chdir_step=0.5, p_spelling=0.8, p_q_spelling=0.6,
         n_steps=(3, 7), w_dup=6),
    'relative spellings of targets and queried paths while the working '
    'directory changes between builds (a relative path names another file '
    'after chdir, the same file is named by another relative path)',
    post='tag_all:C07', weight=0.6))
CAMPAIGNS['C09'].append(
    camp('c09-race-rollback', 'race', {'p_rollback': 1.0, 'p_file': 0.8},
         'a key raced for by a thread that reuses a cached subtree and a '
         'thread that calls it directly (also with other arguments), then '
         'the root function raises: whoever won, the pre-build state is '
         'back (model-free: pre/post equality of every file and directory)',
         nontrivial=nt_threads, post='tag_all:C09', weight=0.5))
CAMPAIGNS['C16'].append(camp(
    'c16-overlap', 'C16',
    dict(OVERLAP, p_anc_target=0.5, n_steps=(3, 6), p_clean_step=0.25,
         p_mutate_step=0.15),
    'targets above / below other targets of the same build (one of the two '
    'calls failing), over foreign files: what the cache file says about '
    'created directories '
    'and failed targets after such builds is what the next build and clean '
    'act on (a directory at the path of a failed target, a failed target '
    'below a successful one)', post='tag_all:C16', weight=0.7))
CAMPAIGNS['C04'].append(
    camp('c04-threads', 'threads',
         {'p_in_sub': 0.0, 'p_in_file': 0.0, 'p_fail': 0.5,
          'n_threads': (2, 4)},
         'the view after concurrent work: 2-4 root-level simulated threads '
         'build and fail to build files in shared new directory chains while '
         'other threads look at those directories (answers not compared: '
         'they depend on the schedule); after the threads were joined a '
         'probe battery over all outputs and their ancestors must give the '
         'from-scratch answers (directories created only for failed outputs '
         'are gone)', nontrivial=nt_threads, post='tag_all:C04', weight=0.6))
CAMPAIGNS['C13'].append(
    camp('c13-threads-line', 'threads', {'p_line': 1.0, 'p_tamper': 0.5},
         'HASH and METADATA comparisons computed concurrently: 2-4 simulated '
         'threads build and read files with line-level preemption inside the '
         'package; the recorded comparison results must be those of the '
         'files (an unchanged rebuild re-executes nothing, tampering is '
         'detected)', nontrivial=nt_threads, chunk=4, post='tag_all:C13',
         weight=0.6))
CAMPAIGNS['C02'].append(
    camp('c02-threads-sweep', 'threads',
         {'p_root_raise': 1.0, 'p_one_dir': 0.5, 'p_foreign': 0.4,
          'p_seq_first': 0.0, 'n_threads': (2, 3), 'p_fail': 0.15},
         'the root function raises after 2-3 simulated threads built files '
         'in new directory chains (and moved foreign files aside): complete '
         'single-preemption sweep of the threaded build; whatever the '
         'schedule, the pre-build state is back',
         mode='sched-sweep', nontrivial=nt_threads, chunk=3,
         post='tag_all:C02', weight=1.0,
         sweep_max={'quick': 16, 'thorough': None}))
CAMPAIGNS['C01'].append(camp(
    'c01-reverts', 'C01',
    dict(p_hash=0.75, mutation_ops=['revert', 'revert', 'revert', 'write',
                                    'touch', 'rm'],
         n_steps=(3, 6), p_mutate_step=0.6, p_tamper=0.85, n_init=(2, 6),
         p_q_near_output=0.85, w_q=34, n_groups=(1, 1), n_paths=(3, 5),
         p_catch=0.85, w_raise=3),
    'foreign files at output paths, read (HASH) and then overwritten by the '
    'build; between builds somebody puts files back to exactly the content '
    'they had before the previous build (a comparison result remembered '
    'from before the file was rebuilt would make the tampering invisible)',
    weight=0.6))
CAMPAIGNS['C12'].append(
    camp('c12-threads-sweep', 'threads',
         {'p_fail': 0.5, 'n_threads': (3, 3), 'p_in_sub': 0.0,
          'p_in_file': 0.0, 'p_one_dir': 0.5, 'p_seq_first': 0.0},
         'three root-level simulated threads build and fail to build files '
         'in shared new directory chains while one of them looks at those '
         'directories; complete single-preemption sweep of the first '
         'threaded build; clean afterwards removes every directory',
         mode='sched-sweep', nontrivial=nt_threads, chunk=3,
         post='tag_all:C12', weight=0.8,
         sweep_max={'quick': 16, 'thorough': None}))
CAMPAIGNS['C14'].append(camp(
    'c14-overlap-sweep', 'C14',
    dict(OVERLAP, p_catch=0.6, p_mutate_step=0.5, n_steps=(3, 5)),
    'targets above / below other targets, foreign files written where '
    'earlier builds had created directories (and the other way round) '
    'between builds: OSError at every pre-commit mutating call index, '
    'propagating out of build or caught and followed by a root failure - '
    'the rollback restores foreign files before it recreates directories',
    mode='oserror-sweep', nontrivial=nt_rollback_restored, chunk=6, follow=1,
    crash_end=True, weight=0.8, sweep_max={'quick': 12, 'thorough': None}))
CAMPAIGNS['C05'].append(camp(
    'c05-overlap', 'C05',
    dict(OVERLAP, p_anc_target=0.5, n_steps=(3, 6), p_mutate_step=0.1,
         p_tamper=0.2, w_q=34, p_self_list=0.5, p_write_never=0.3,
         p_overlap_struct=0.5,
         query_kinds=['list_dir', 'walk', 'walk_bu', 'is_dir', 'exists',
                      'is_file', 'read_text', 'get_size']),
    'targets above / below other targets of the same build (one of the two '
    'calls failing) whose functions list and walk the directories they work '
    'in: an unchanged rebuild re-executes only what failed', weight=0.8))
CAMPAIGNS['C14'].append(
    camp('c14-wide-faults', 'wide', {},
         'more than 128 (up to 260) files moved aside in one build, the '
         'creation of a backup sub-directory fails (caught per file), then '
         'the root function fails: everything is restored',
         mode='oserror-sweep', nontrivial=nt_rollback_restored, chunk=1,
         follow=0, weight=0.3, only_calls=['makedirs'], crash_end=True,
         torn=False, sweep_max={'quick': 2, 'thorough': None}))
CAMPAIGNS['C06'].append(camp(
    'c06-nested-fail', 'C06',
    dict(NESTED_FAIL, p_version_change=0.7, p_weird_names=0.3,
         p_clean_step=0.0, p_mutate_step=0.2, n_steps=(3, 7), p_catch=0.9),
    'version changes over chains of nested build_file / subbuild calls '
    'whose levels fail and are caught (the record of a raised operation '
    'keeps what it did after a caught failure), also with functions sharing '
    'a name', post='tag_versions', weight=0.8))
CAMPAIGNS['C06'].append(camp(
    'c06-shared-names', 'C06',
    dict(VERSION_HEAVY, p_weird_names=0.8, max_nest=4, w_bf=34, w_sb=30),
    'call graphs in which several functions are registered under one name '
    '(recursive / same-named nesting): a version change of a function that '
    'is only reached below a same-named call', post='tag_versions',
    weight=0.6))
CAMPAIGNS['C04'].append(camp(
    'c04-chains-faults', 'C04',
    dict(NESTED_FAIL, p_chain=0.9, p_mutate_step=0.05, p_clean_step=0.0,
         n_steps=(2, 4), p_catch=0.95, w_probe=10, p_q_near_output=0.8),
    'the view right after a cached tree of three and more nested outputs '
    'could only partly be re-applied (mkdir / rename failing at every index, '
    'caught by the caller): reservations of the enclosing outputs are '
    'released, their directories are gone from the view',
    mode='oserror-sweep', nontrivial=nt_rollback_restored, chunk=6, follow=1,
    torn=False, errnos=['EACCES', 'ENOSPC'], weight=0.7,
    sweep_max={'quick': 12, 'thorough': None}))
CAMPAIGNS['C09'].append(
    camp('c09-reuse-sweep', 'threads',
         {'p_seq_first': 1.0, 'p_in_sub': 0.0, 'p_in_file': 0.0,
          'p_tamper': 0.15, 'n_threads': (2, 3)},
         THREAD_RULE + '; the first build is sequential, so that the '
         'threaded build mostly *reuses* cached subtrees while other threads '
         'look at the files in them: complete single-preemption sweep of '
         'that build', mode='sched-sweep', nontrivial=nt_threads, chunk=3,
         post='tag_all:C09', weight=1.6,
         sweep_max={'quick': 16, 'thorough': None}))
CAMPAIGNS['C09'].append(
    camp('c09-duplicates-line', 'threads',
         {'p_same_key': 1.0, 'p_tamper': 0.7, 'p_line': 1.0},
         'two to four simulated threads issue the same build_file / subbuild '
         'key for outputs that were tampered with (so that every thread '
         'validates, hashes and tries to rebuild), with line-level '
         'preemption inside the package; afterwards an unchanged rebuild '
         're-executes nothing', nontrivial=nt_threads, chunk=4,
         post='tag_all:C09', weight=0.6))
CAMPAIGNS['C10'].append(
    camp('c10-duplicates', 'threads', {'p_same_key': 1.0, 'p_tamper': 0.3},
         'the build_file contract when two to four simulated threads ask for '
         'the same target in new directory chains (one builds or fails, the '
         'others are refused): directories created for a failed target are '
         'gone from the view at once and from the disk at the end; complete '
         'single-preemption sweep of the first threaded build',
         mode='sched-sweep', nontrivial=nt_threads, chunk=3,
         post='tag_all:C10', weight=0.7,
         sweep_max={'quick': 14, 'thorough': None}))
RACE_RULE = ('a key (build_file path / subbuild name+arguments) performed '
             'directly by one thread while another thread reuses or '
             're-executes a cached subtree (depth 1-2) that contains it; '
             'model-free oracle: every key is performed at most once per '
             'build (executed, served, or implied by a served subtree), '
             'losers get RuntimeError, the sequential builds in between '
             'equal from-scratch runs, clean removes everything')
CAMPAIGNS['C08'].append(
    camp('c08-race', 'race', {}, RACE_RULE + '; seeded random / PCT / '
         'single-preemption schedules', nontrivial=nt_threads,
         post='tag_all:C08', weight=0.8))
CAMPAIGNS['C08'].append(
    camp('c08-race-sweep', 'race', {}, RACE_RULE + '; complete '
         'single-preemption sweep of the first racing build',
         mode='sched-sweep', nontrivial=nt_threads, chunk=3,
         post='tag_all:C08', sweep_max={'quick': 16, 'thorough': None},
         weight=0.8))
CAMPAIGNS['C08'].append(
    camp('c08-race-line', 'race', {'p_line': 1.0}, RACE_RULE + '; line-level '
         'preemption: every source line executed inside the package is a '
         'yield point', nontrivial=nt_threads, chunk=4, post='tag_all:C08',
         weight=0.5))
CAMPAIGNS['C17'] = [
    camp('c17-stragglers', 'stragglers', {},
         'a detached simulated thread keeps calling builder methods (9 query '
         'kinds, subbuild, build_file) on the builder of a root / subbuild / '
         'build_file function while that function returns or raises; seeded '
         'random, PCT and single-preemption schedules; a call invoked after '
         'the owner\'s API call returned must raise RuntimeError; the record '
         'must contain exactly the calls that completed (checked by mutating '
         'what only the straggler read and rebuilding)',
         nontrivial=nt_threads),
]
LINE_RULE = ('line-level preemption: every source line executed inside '
             'file_builder by a simulated thread is a yield point (seeded '
             'random switching, p = 1-8 %), for windows that contain neither '
             'a lock operation nor a file-system call')
CAMPAIGNS['C09'].append(camp(
    'c09-line-preempt', 'threads', {'p_line': 1.0}, THREAD_RULE + '; ' +
    LINE_RULE, nontrivial=nt_threads, chunk=4, post='tag_all:C09',
    weight=0.7))
CAMPAIGNS['C08'].append(camp(
    'c08-line-preempt', 'threads', {'p_line': 1.0, 'p_same_key': 1.0},
    'same key from 2-4 threads; ' + LINE_RULE, nontrivial=nt_threads,
    chunk=4, post='tag_all:C08', weight=0.7))
CAMPAIGNS['C17'].append(
    camp('c17-preemption-sweep', 'stragglers', {},
         'stragglers, single-preemption sweep of the first scheduled build',
         mode='sched-sweep', nontrivial=nt_threads, chunk=3,
         sweep_max={'quick': 12, 'thorough': None}))
CAMPAIGNS['C17'].append(camp(
    'c17-line-preempt', 'stragglers', {'p_line': 1.0},
    'stragglers; ' + LINE_RULE, nontrivial=nt_threads, chunk=4, weight=0.7))
SWAP_RULE = ('two root programs whose output paths sit above / below each '
             'other (file <-> directory swaps of outputs between builds)')
NESTED_RULE = ('build_file functions that build nested outputs and then fail, '
               'caught by cached callers; unchanged rebuilds; clean')
for _p, _post in (('C01', None), ('C03', None), ('C04', None),
                  ('C10', 'tag_all:C10'), ('C12', 'tag_after_clean'),
                  ('C05', None), ('C02', None)):
    _extra = {'post': _post} if _post else {}
    if _p == 'C02':
        CAMPAIGNS[_p].append(camp(
            'c02-swaps-crash', 'C02', SWAP_HEAVY, SWAP_RULE,
            mode='crash-sweep', nontrivial=nt_rollback_restored, chunk=6,
            sweep_max={'quick': 12, 'thorough': None}, follow=1))
        continue
    CAMPAIGNS[_p].append(camp(_p.lower() + '-swaps', _p, SWAP_HEAVY,
                              SWAP_RULE, **_extra))
    CAMPAIGNS[_p].append(camp(_p.lower() + '-nested-fail', _p, NESTED_FAIL,
                              NESTED_RULE, **_extra))
DENSE_RULE = ('two root programs that each build all outputs of their group, '
              'the groups sitting one or two levels above / below each other, '
              'run alternately (nested stale directories make room for files, '
              'directories replace stale files, in every build)')
for _p, _post in (('C01', None), ('C03', None), ('C10', 'tag_all:C10'),
                  ('C12', 'tag_after_clean')):
    _extra = {'post': _post} if _post else {}
    CAMPAIGNS[_p].append(camp(_p.lower() + '-swaps-dense', _p, SWAP_DENSE,
                              DENSE_RULE, weight=0.6, **_extra))
CAMPAIGNS['C02'].append(camp(
    'c02-swaps-dense-crash', 'C02', SWAP_DENSE, DENSE_RULE,
    mode='crash-sweep', nontrivial=nt_rollback_restored, chunk=6,
    sweep_max={'quick': 12, 'thorough': None}, follow=1, weight=0.6))
CAMPAIGNS['C14'].append(camp(
    'c14-swaps-dense-sweep', 'C14', dict(SWAP_DENSE, p_catch=0.9),
    DENSE_RULE + ': OSError at every pre-commit mutating call index, also '
    'followed by a root failure',
    mode='oserror-sweep', nontrivial=nt_rollback_restored, chunk=6, follow=1,
    crash_end=True, sweep_max={'quick': 12, 'thorough': None}, weight=0.6))
OVERLAP_RULE = ('targets above / below other targets of the same build '
                '(one of the two calls failing), over foreign files')
CAMPAIGNS['C07'].append(camp(
    'c07-across-builds', 'C07',
    dict(IDENTITY_HEAVY, p_stepargs=0.6, w_dup=6, n_steps=(3, 6),
         p_mutate_step=0.0, p_chdir_step=0.1, p_spelling=0.3),
    'the same call site issued in consecutive builds with arguments from '
    'families of JSON-equal and near-miss values (1/1.0/True, None vs '
    'missing key, tuple vs list, key order, big ints, non-string keys): '
    'served from the cache iff the keys are JSON-equal',
    post='tag_all:C07'))
CAMPAIGNS['C02'].append(camp(
    'c02-cache-write-faults', 'C02', dict(p_mutate_step=0.4, p_tamper=0.5),
    'the exception is raised while the cache file is being written: OSError '
    'when the old cache file is moved aside (makedirs / rename), at cache '
    'open / write / close, and torn writes, with and without a previous '
    'cache file', mode='oserror-sweep',
    nontrivial=nt_rollback_restored, chunk=6, follow=1, weight=0.5,
    only_calls=['@cache'],
    sweep_max={'quick': 14, 'thorough': None}))
CAMPAIGNS['C04'].append(camp(
    'c04-oserror', 'C04',
    dict(VIEW_HEAVY, p_catch=0.95, p_tamper=0.6, p_mutate_step=0.4,
         n_steps=(2, 4), w_probe=18),
    'the virtual view after a caught internal OSError: query-dominated '
    'programs, OSError at every pre-commit mutating call index of the last '
    'build', mode='oserror-sweep', nontrivial=nt_rollback_restored, chunk=6,
    follow=1, torn=False, errnos=['EXDEV', 'ENOSPC', 'EACCES'],
    sweep_max={'quick': 10, 'thorough': None}))
CAMPAIGNS['C13'].append(camp(
    'c13-mode-switch', 'C13',
    dict(COMPARISON_HEAVY, p_stepcmp=0.6, n_steps=(3, 6),
         p_mutate_step=0.25, p_tick0=0.1),
    'call sites whose comparison mode switches between HASH and METADATA '
    'from build to build (outputs and reads), combined with touch / stealth '
    '/ write mutations', post='tag_all:C13'))
CAMPAIGNS['C14'].append(camp(
    'c14-chains-sweep', 'C14',
    dict(NESTED_FAIL, p_chain=0.9, p_mutate_step=0.05, p_clean_step=0.0,
         n_steps=(2, 4), p_catch=0.9),
    'chains of nested build_file / subbuild calls, last build mostly an '
    'unchanged rebuild (cached trees are applied): OSError at every '
    'pre-commit mutating call index, also followed by a root failure',
    mode='oserror-sweep', nontrivial=nt_rollback_restored, chunk=6, follow=1,
    crash_end=True, sweep_max={'quick': 12, 'thorough': None}))
CAMPAIGNS['C10'].append(camp(
    'c10-swaps-faults', 'C10', dict(SWAP_HEAVY, p_catch=0.95),
    SWAP_RULE + '; mkdir / rename / rmdir failing at every index of the '
    'last build (a directory that has to replace a stale output file, a '
    'stale directory that has to make room for a file)',
    mode='oserror-sweep', nontrivial=nt_rollback_restored, chunk=6, follow=1,
    torn=False, errnos=['ENAMETOOLONG', 'ENOSPC', 'EACCES'],
    post='tag_all:C10', sweep_max={'quick': 12, 'thorough': None}))
CAMPAIGNS['C14'].append(camp(
    'c14-swaps-sweep', 'C14', dict(SWAP_HEAVY, p_catch=0.9),
    SWAP_RULE + ' (make_room: files moved out of a stale directory, rmdir; '
    'a directory replacing a stale output file): OSError at every pre-commit '
    'mutating call index, also followed by a root failure',
    mode='oserror-sweep', nontrivial=nt_rollback_restored, chunk=6, follow=1,
    crash_end=True, sweep_max={'quick': 12, 'thorough': None}))
WIDE_RULE = ('wide builds: one statement builds 130-260 outputs (over '
             'foreign files or previous outputs), so that more than 128 files '
             'are moved aside in one build, then the build fails and is '
             'rolled back')
CAMPAIGNS['C02'].append(camp('c02-wide', 'wide', {}, WIDE_RULE,
                             nontrivial=nt_rollback_restored, chunk=2,
                             weight=0.4))
CAMPAIGNS['C03'].append(camp('c03-wide', 'wide', {}, WIDE_RULE,
                             nontrivial=nt_rollback_restored, chunk=2,
                             weight=0.3))
RETRY = dict(FAILURE_HEAVY, p_retry=0.5, p_catch=0.9, p_mutate_step=0.15,
             n_steps=(3, 5), w_bf=40, p_tamper=0.5)
CAMPAIGNS['C14'].append(camp(
    'c14-retry-sweep', 'C14', RETRY,
    'programs that call build_file again with other arguments after a '
    'caught failure; OSError at every pre-commit mutating call index, half '
    'of them followed by a failure of the root function (rollback after a '
    'caught internal error)', mode='oserror-sweep',
    nontrivial=nt_rollback_restored, chunk=6, follow=1, crash_end=True,
    sweep_max={'quick': 12, 'thorough': None}))
CAMPAIGNS['C14'][0]['crash_end'] = True
CAMPAIGNS['C03'].append(camp(
    'c03-oserror', 'C03', dict(OVERLAP, p_catch=0.75), OVERLAP_RULE +
    '; OSError (incl. EXDEV) at every pre-commit mutating call, half of them '
    'followed by a failure of the root function', mode='oserror-sweep',
    nontrivial=nt_rollback_restored, chunk=6, follow=1, crash_end=True,
    errnos=['EXDEV', 'EACCES', 'ENOSPC'], torn=False,
    sweep_max={'quick': 10, 'thorough': None}))
CACHE_IN_DIR = dict(
    p_cache_in_output_dir=1.0, n_steps=(3, 7), p_mutate_step=0.15,
    p_clean_step=0.3, p_catch=0.85, w_raise=8, p_write_never=0.12,
    n_groups=(1, 1), n_paths=(3, 6), p_chain=0.3, w_q=20, w_bf=36)
CACHE_IN_DIR_RULE = ('the cache file lives inside a directory (chain) that '
                     'also receives outputs and may have been created by an '
                     'earlier build; programs ask file-level questions only '
                     '(when the cache directory appears in the view is '
                     'unspecified)')
for _p, _post in (('C12', 'tag_after_clean'), ('C01', None), ('C10',
                                                              'tag_all:C10')):
    CAMPAIGNS[_p].append(camp(_p.lower() + '-cache-in-output-dir', _p,
                              CACHE_IN_DIR, CACHE_IN_DIR_RULE,
                              **({'post': _post} if _post else {})))
CAMPAIGNS['C03'].append(camp('c03-overlap', 'C03', OVERLAP, OVERLAP_RULE))
CAMPAIGNS['C03'].append(camp(
    'c03-overlap-crash', 'C03', OVERLAP, OVERLAP_RULE, mode='crash-sweep',
    nontrivial=nt_rollback_restored, chunk=6,
    sweep_max={'quick': 10, 'thorough': None}, follow=1))
CAMPAIGNS['C02'].append(camp(
    'c02-overlap-crash', 'C02', OVERLAP, OVERLAP_RULE, mode='crash-sweep',
    nontrivial=nt_rollback_restored, chunk=6,
    sweep_max={'quick': 12, 'thorough': None}, follow=1))
CAMPAIGNS['C10'].append(camp(
    'c10-long-names', 'C10',
    dict(FAILURE_HEAVY, names=['a', 'b', 'L' * 300, 'c'], p_catch=0.95,
         n_paths=(3, 6), w_probe=6, p_chain=0.3,
         query_kinds=['exists', 'is_file', 'is_dir', 'list_dir', 'walk',
                      'get_size']),
    'targets and ancestors with a component longer than 255 bytes: the '
    'kernel itself makes mkdir / open fail (no injection), at every level',
    post='tag_all:C10'))
CAMPAIGNS['C10'].append(camp('c10-overlap', 'C10', OVERLAP, OVERLAP_RULE,
                             post='tag_all:C10'))
CAMPAIGNS['C04'].append(camp('c04-overlap', 'C04', OVERLAP, OVERLAP_RULE))
for _c in CAMPAIGNS['C03']:
    _c['foreign_live'] = True
for _c in CAMPAIGNS['C12']:
    _c['nontrivial'] = nt_clean


def for_property(prop, include_exploratory=False):
    camps = list(CAMPAIGNS.get(prop, []))
    if include_exploratory:
        camps += EXPLORATORY.get(prop, [])
    return camps


def get(prop, name):
    for c in CAMPAIGNS.get(prop, []) + EXPLORATORY.get(prop, []):
        if c['name'] == name:
            return c
    raise KeyError(name)


def summarize(sc):
    """Compact human-readable form of a scenario for evidence samples."""
    return {
        'profile': sc.get('profile'), 'seed': sc.get('seed'),
        'cache': sc['config'].get('cache_rel'),
        'init': sc.get('init') if len(sc.get('init') or []) <= 12 else
        sc['init'][:3] + ['... %d entries' % len(sc['init'])],
        'roots': sc['roots'],
        'funcs': {k: v['variants'] for k, v in sorted(sc['funcs'].items())},
        'steps': sc['steps'],
        'mode': sc.get('mode', 'plain'),
        'fault_step': sc.get('fault_step'), 'sweep': sc.get('sweep'),
    }


def run_any(sc, prop=None):
    mode = sc.get('mode', 'plain')
    if mode in ('plain', 'fault'):
        return run_scenario(sc, {'prop': prop} if prop else None)
    raise ValueError('unknown scenario mode %r' % (mode,))


def apply_post(sc, post):
    from .util import jeq
    if post.startswith('tag_all:'):
        tag = post.split(':')[1]
        for st in sc['steps']:
            if st['op'] in ('build', 'clean', 'freebuild', 'freeclean'):
                st['tags'] = [tag]
    elif post == 'tag_versions':
        prev = None
        for st in sc['steps']:
            if st['op'] == 'build':
                v = st.get('versions', {})
                if prev is not None and not jeq(
                        {k: x for k, x in v.items() if x is not None},
                        {k: x for k, x in prev.items() if x is not None}):
                    st['tags'] = ['C06']
                prev = v
    elif post == 'tag_after_clean':
        after = False
        for st in sc['steps']:
            if st['op'] == 'clean':
                st['tags'] = ['C12']
                after = True
            elif st['op'] == 'build' and after:
                st['tags'] = ['C12']
                after = False
    return sc


def run_case(camp, seed, tier='quick', prop=None):
    params = camp.get('params')
    if tier == 'thorough' and seed % 2 and isinstance(params, dict) and \
            camp['profile'] not in ('threads', 'stragglers', 'wide', 'race', 'dep'):
        # deeper bounds for every second case of the thorough tier
        lo, hi = params.get('n_steps', gen.DEFAULT['n_steps'])
        plo, phi = params.get('n_paths', gen.DEFAULT['n_paths'])
        params = dict(params, n_steps=(lo + 1, hi + 4),
                      n_paths=(plo, phi + 3))
    sc = gen.generate(camp['profile'], seed, params)
    post = camp.get('post')
    if post is not None:
        sc = apply_post(sc, post)
    if camp.get('foreign_live'):
        sc['config']['foreign_live'] = True
    if camp.get('scratch_diff'):
        sc['config']['scratch_diff'] = True
    if prop in ('C01', 'C05', 'C06', 'C11', 'C16') and \
            camp.get('mode', 'plain') == 'plain':
        sc['config']['m1_crosscheck'] = True
    if camp.get('only_calls'):
        sc['only_calls'] = camp['only_calls']
    out = {'runs': 0, 'stats': {}, 'violations': [], 'invalid': 0,
           'errors': [], 'verdicts': [], 'nontrivial': False,
           'shape': None, 'log_digest': None, 'sample': None,
           'sched_digests': []}
    mode = camp.get('mode', 'plain')
    if mode == 'plain':
        res = run_scenario(sc, {'prop': prop})
        _account(out, sc, res, camp)
    elif mode in ('crash-sweep', 'oserror-sweep'):
        builds = [i for i, s in enumerate(sc['steps']) if s['op'] == 'build']
        pick = camp.get('fault_step', 'last')
        fs = builds[-1] if pick in ('last', 'lastbuild') else \
            builds[seed % len(builds)]
        sc['mode'] = 'fault'
        sc['fault_step'] = fs
        sc['follow'] = camp.get('follow', 1)
        sc['sweep'] = 'crash' if mode == 'crash-sweep' else 'oserror'
        cap = camp.get('sweep_max', {}).get(tier)
        if cap is not None:
            sc['sweep_max'] = cap
        if mode == 'oserror-sweep':
            sc['errnos'] = camp.get('errnos', ['ENOSPC', 'EACCES', 'EIO'])
            sc['torn'] = camp.get('torn', True)
            sc['crash_end'] = camp.get('crash_end', False)
        res = run_scenario(sc, {'prop': prop})
        if res['verdict'] == 'violation' and res.get('fault') is not None:
            # the replayable form carries the one fault that failed
            sc = dict(sc)
            sc.pop('sweep', None)
            sc.pop('sweep_max', None)
            sc['fault'] = res['fault']
        _account(out, sc, res, camp)
        out['runs'] += res.get('runs', 1) - 1
    elif mode == 'sched-sweep':
        # complete single-preemption sweep of the first threaded build:
        # thread a is pre-empted at its i-th yield point, for every a and i
        import copy
        idx = [i for i, s in enumerate(sc['steps']) if s.get('sched')]
        if not idx:
            res = run_scenario(sc, {'prop': prop})
            _account(out, sc, res, camp)
        else:
            t = idx[0]
            probe = copy.deepcopy(sc)
            probe['steps'][t]['sched'] = {'policy': 'sweep', 'thread': -1,
                                          'at': -1}
            res = run_scenario(probe, {'prop': prop})
            _account(out, probe, res, camp)
            ys = (res.get('thread_yields') or [[]])[0]
            points = [(a, i) for a in range(1, len(ys))
                      for i in range(ys[a] + 1)]
            cap = camp.get('sweep_max', {}).get(tier)
            if cap is not None and len(points) > cap:
                import random
                rr = random.Random(seed)
                points = rr.sample(points, cap)
            if res['verdict'] == 'ok':
                for a, i in points:
                    c = copy.deepcopy(sc)
                    c['steps'][t]['sched'] = {'policy': 'sweep', 'thread': a,
                                              'at': i}
                    r2 = run_scenario(c, {'prop': prop})
                    _account(out, c, r2, camp)
                    if r2['verdict'] != 'ok':
                        break
    else:
        raise ValueError(mode)
    if seed % 97 == 0:
        out['sample'] = summarize(sc)
    return out


def _account(out, sc, res, camp):
    out['runs'] += 1
    out['verdicts'].append(res['verdict'])
    out['log_digest'] = res.get('log_digest')
    if out['stats']:
        from .check import merge_stats
        merge_stats(out['stats'], res.get('stats', {}))
    else:
        out['stats'] = res.get('stats', {})
    out['sched_digests'] = res.get('sched_digests', [])
    if res['verdict'] == 'violation':
        out['violations'].append((sc, res))
    elif res['verdict'] == 'invalid':
        out['invalid'] += 1
    elif res['verdict'] == 'error':
        out['errors'].append({'seed': sc.get('seed'),
                              'error': res.get('error')})
    if res['verdict'] in ('ok', 'violation'):
        if camp['nontrivial'](res.get('stats', {})):
            out['nontrivial'] = True
            out['shape'] = digest(
                {k: sc[k] for k in ('init', 'funcs', 'roots', 'steps',
                                    'config')}, 12)


def trigger_matches(known, vio):
    """Known-finding signature beyond (oracle, key): named predicates."""
    trig = known.get('trigger')
    if not trig:
        return True
    d = vio.get('detail', {})
    for k, v in trig.items():
        if d.get(k) != v:
            return False
    return True
