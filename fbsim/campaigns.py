"""Which scenarios decide which property: campaigns, budgets, evidence rules."""
from . import gen
from .runner import run_scenario
from .util import digest

BUDGET = {'quick': 40.0, 'thorough': 600.0}
BUDGET_SCALE = {}

LEVEL = {
    'C01': 'exploration',
}

ASSUMPTIONS = [
    'sampling, not enumeration: a clean batch is evidence, not proof',
    'small-scope universe: <= 8 paths over <= 3 directory levels, <= 10 '
    'functions, <= 6 steps per history',
    'the reference model (fbsim/model.py) is a second implementation of the '
    'documented semantics and is itself trusted',
    'Linux, case-sensitive tmpfs, no symlinks; external changes only between '
    'builds; no process death',
]

RULES = {
    'C01': 'seeded histories of build/mutate/clean steps over generated '
           'programs, every build compared with the reference model (result, '
           'per-invocation observations, tree); non-trivial = distinct '
           'scenario digest in which at least one call was served from the '
           'cache and at least one was (re-)executed after the first build',
}


def nt_serve_and_exec(stats):
    return stats.get('served', 0) > 0 and stats.get('executed', 0) > 0 and \
        stats.get('builds', 0) > 1


CAMPAIGNS = {
    'C01': [
        {'name': 'c01-generic', 'profile': 'C01', 'mode': 'plain',
         'nontrivial': nt_serve_and_exec, 'weight': 1.0,
         'rule': 'generic programs and histories'},
    ],
}


def for_property(prop):
    return CAMPAIGNS.get(prop, [])


def get(prop, name):
    for c in CAMPAIGNS[prop]:
        if c['name'] == name:
            return c
    raise KeyError(name)


def summarize(sc):
    """Compact human-readable form of a scenario for evidence samples."""
    return {
        'profile': sc.get('profile'), 'seed': sc.get('seed'),
        'cache': sc['config'].get('cache_rel'),
        'init': sc.get('init'),
        'roots': sc['roots'],
        'funcs': {k: v['variants'] for k, v in sorted(sc['funcs'].items())},
        'steps': sc['steps'],
    }


def run_any(sc):
    mode = sc.get('mode', 'plain')
    if mode == 'plain':
        return run_scenario(sc)
    raise ValueError('unknown scenario mode %r' % (mode,))


def run_case(camp, seed):
    sc = gen.generate(camp['profile'], seed, camp.get('params'))
    post = camp.get('post')
    if post is not None:
        sc = post(sc, seed)
    out = {'runs': 0, 'stats': {}, 'violations': [], 'invalid': 0,
           'errors': [], 'verdicts': [], 'nontrivial': False,
           'shape': None, 'log_digest': None, 'sample': None}
    mode = camp.get('mode', 'plain')
    if mode == 'plain':
        res = run_scenario(sc)
        _account(out, sc, res, camp)
    else:
        raise ValueError(mode)
    if seed % 97 == 0:
        out['sample'] = summarize(sc)
    return out


def _account(out, sc, res, camp):
    out['runs'] += 1
    out['verdicts'].append(res['verdict'])
    out['log_digest'] = res.get('log_digest')
    out['stats'] = res.get('stats', {})
    if res['verdict'] == 'violation':
        out['violations'].append((sc, res))
    elif res['verdict'] == 'invalid':
        out['invalid'] += 1
    elif res['verdict'] == 'error':
        out['errors'].append({'seed': sc.get('seed'),
                              'error': res.get('error')})
    if res['verdict'] in ('ok', 'violation'):
        if camp['nontrivial'](res.get('stats', {})):
            out['nontrivial'] = True
            out['shape'] = digest(
                {k: sc[k] for k in ('init', 'funcs', 'roots', 'steps',
                                    'config')}, 12)


def trigger_matches(known, vio):
    """Known-finding signature beyond (oracle, key): named predicates."""
    trig = known.get('trigger')
    if not trig:
        return True
    d = vio.get('detail', {})
    for k, v in trig.items():
        if d.get(k) != v:
            return False
    return True
