"""Command line driver: seeded search over scenarios, replay, evidence.

    bin/check --property C01 --tier quick|thorough
    bin/check --replay replays/C01/<digest>.json

Exit 0: the property held on everything explored (known findings printed as
KNOWN-FINDING lines).  Exit 1: ``VIOLATION property=<id> replay=<path>``.
Exit 2: harness error (nondeterminism, worker death, timeout, internal error).
"""
import argparse
import concurrent.futures as cf
import faulthandler
import json
import multiprocessing
import os
import sys
import time
import traceback

VERIF = os.path.dirname(os.path.dirname(os.path.abspath(__file__)))


def wanted_hashseed(argv):
    """The interpreter's hash seed is part of the scenario: it fixes the
    iteration order of the library's sets of strings.  It is derived from
    VERIF_SEED (so different seed blocks explore different orders, and one
    seed is still one exactly repeatable execution) and recorded in every
    replay file."""
    seed = int(os.environ.get('VERIF_SEED', '0') or 0)
    replay = None
    for i, a in enumerate(argv):
        if a == '--seed' and i + 1 < len(argv):
            seed = int(argv[i + 1])
        elif a.startswith('--seed='):
            seed = int(a.split('=', 1)[1])
        elif a == '--replay' and i + 1 < len(argv):
            replay = argv[i + 1]
        elif a.startswith('--replay='):
            replay = a.split('=', 1)[1]
    if replay is not None:
        try:
            with open(replay) as f:
                return str(json.load(f).get('hashseed', 0))
        except Exception:
            return '0'
    return str((seed * 7919) % 4096)


def _reexec_with_hashseed():
    want = wanted_hashseed(sys.argv[1:])
    if os.environ.get('PYTHONHASHSEED') != want and \
            not os.environ.get('FBSIM_KEEP_HASHSEED'):
        env = dict(os.environ)
        env['PYTHONHASHSEED'] = want
        os.execve(sys.executable, [sys.executable] + sys.argv, env)


def merge_stats(a, b):
    for k, v in b.items():
        if isinstance(v, dict):
            merge_stats(a.setdefault(k, {}), v)
        elif isinstance(v, (int, float)):
            if k.startswith('max_'):
                a[k] = max(a.get(k, 0), v)
            else:
                a[k] = a.get(k, 0) + v
        else:
            a.setdefault(k, v)
    return a


def run_chunk(args):
    """Worker: run a chunk of seeds of one campaign."""
    camp_name, prop, seeds, deadline, tier = args
    faulthandler.dump_traceback_later(600, exit=True)
    from . import campaigns
    from .util import digest
    camp = campaigns.get(prop, camp_name)
    out = {'runs': 0, 'cases': 0, 'stats': {}, 'violations': [],
           'invalid': 0, 'errors': [], 'nontrivial': [], 'digests': {},
           'verdicts': {}, 'samples': [], 'sched': set()}
    for seed in seeds:
        if time.time() > deadline:
            break
        try:
            r = campaigns.run_case(camp, seed, tier, prop)
        except Exception:
            out['errors'].append({'seed': seed,
                                  'error': traceback.format_exc()})
            continue
        out['cases'] += 1
        out['runs'] += r['runs']
        merge_stats(out['stats'], r['stats'])
        out['invalid'] += r['invalid']
        out['digests'][seed] = r['log_digest']
        out['sched'].update(r.get('sched_digests', []))
        for v in r['verdicts']:
            out['verdicts'][v] = out['verdicts'].get(v, 0) + 1
        if r['errors']:
            out['errors'].extend(r['errors'])
        for sc, res in r['violations']:
            out['violations'].append((seed, sc, res))
        if r['nontrivial']:
            out['nontrivial'].append(r['shape'])
        if len(out['samples']) < 2 and r.get('sample') is not None:
            out['samples'].append(r['sample'])
    faulthandler.cancel_dump_traceback_later()
    return out


def load_known():
    p = os.path.join(VERIF, 'known_findings.json')
    if not os.path.exists(p):
        return []
    with open(p) as f:
        return json.load(f).get('findings', [])


def match_known(known, prop, vio):
    for k in known:
        if k.get('status') != 'known':
            continue
        if k['property'] != prop and prop not in k.get('also', []):
            continue
        if k['oracle'] == vio['oracle'] and k['key'] == vio['key']:
            from . import campaigns
            if campaigns.trigger_matches(k, vio):
                return k
    return None


def write_replay(prop, sc, res, extra=None):
    from .util import digest
    d = os.path.join(VERIF, 'replays', prop)
    os.makedirs(d, exist_ok=True)
    name = digest(sc, 12) + '.json'
    path = os.path.join(d, name)
    doc = {'property': prop, 'violation': res['violation'],
           'log_digest': res.get('log_digest'), 'scenario': sc,
           'hashseed': int(os.environ.get('PYTHONHASHSEED', '0') or 0)}
    if extra:
        doc.update(extra)
    with open(path, 'w') as f:
        # (insertion order of dictionaries is part of a scenario: keyword
        # arguments and dict arguments in non-alphabetical order)
        json.dump(doc, f, indent=1)
    return path


def fresh_replay_fails(path, prop, k):
    """Replay ``path`` in a fresh interpreter (with the hash seed recorded
    in the file): does it fail for ``prop`` with oracle/key ``k``?"""
    import subprocess
    try:
        out = subprocess.run(
            [sys.executable, os.path.join(VERIF, 'bin', 'check_main.py'),
             '--replay', path, '--property', prop], capture_output=True,
            text=True, timeout=600).stdout
    except Exception:
        return False
    for line in out.splitlines():
        if line.startswith('replay: violation props='):
            props = line.split('props=')[1].split(' ')[0].split(',')
            return prop in props and \
                'oracle=%s key=%s ' % (k[0], k[1]) in line
    return False


def do_replay(path, prop=None):
    from . import campaigns
    with open(path) as f:
        doc = json.load(f)
    prop = prop or doc['property']
    res = campaigns.run_any(doc['scenario'], prop)
    want = (doc['violation']['oracle'], doc['violation']['key'])
    if res['verdict'] == 'violation':
        v = res['violation']
        same = (v['oracle'], v['key']) == want
        print('replay: violation props=%s oracle=%s key=%s step=%s%s' % (
            ','.join(v['props']), v['oracle'], v['key'], v['step'],
            '' if same else ' (DIFFERENT from recorded %s/%s)' % want))
        print('replay: detail=%s' % json.dumps(v['detail'])[:2000])
        print('replay: log_digest=%s recorded=%s' % (
            res.get('log_digest'), doc.get('log_digest')))
        if prop in v['props']:
            print('VIOLATION property=%s replay=%s' % (prop, path))
            return 1
        return 0
    print('replay: verdict=%s (no violation reproduced)' % res['verdict'])
    if res['verdict'] == 'error':
        print(res.get('error'))
        return 2
    return 0


def main(argv=None):
    _reexec_with_hashseed()
    ap = argparse.ArgumentParser()
    ap.add_argument('--property', '-p')
    ap.add_argument('--tier', default=os.environ.get('VERIF_TIER', 'quick'))
    ap.add_argument('--replay')
    ap.add_argument('--seed', type=int,
                    default=int(os.environ.get('VERIF_SEED', '0')))
    ap.add_argument('--budget', type=float,
                    default=float(os.environ.get('VERIF_BUDGET', '0')))
    ap.add_argument('--jobs', type=int,
                    default=int(os.environ.get('VERIF_JOBS', '0')))
    ap.add_argument('--no-shrink', action='store_true')
    ap.add_argument('--no-evidence', action='store_true')
    ap.add_argument('--campaign')
    args = ap.parse_args(argv)
    sys.path.insert(0, VERIF)
    if args.replay:
        return do_replay(args.replay, args.property)
    if not args.property:
        ap.error('--property or --replay required')
    return run_check(args)


def run_check(args):
    from . import campaigns
    from .util import digest
    from .shrink import shrink, vkey
    prop = args.property
    tier = 'thorough' if args.tier == 'thorough' else 'quick'
    camps = campaigns.for_property(prop)
    if args.campaign:
        camps = [c for c in campaigns.for_property(prop, True)
                 if c['name'] == args.campaign]
    if not camps:
        print('no campaign for %s' % prop)
        return 2
    budget = args.budget or (
        campaigns.BUDGET[tier] * campaigns.BUDGET_SCALE.get(prop, 1.0))
    jobs = args.jobs or min(16, os.cpu_count() or 4)
    t0 = time.time()
    known = load_known()
    print('check property=%s tier=%s seed=%d budget=%.0fs jobs=%d '
          'repo=%s' % (prop, tier, args.seed, budget, jobs,
                       os.environ.get('VERIF_REPO', '/repo')))
    sys.stdout.flush()
    total_w = sum(c.get('weight', 1.0) for c in camps)
    ctx = multiprocessing.get_context('fork')
    agg = {'runs': 0, 'cases': 0, 'invalid': 0, 'stats': {}, 'verdicts': {},
           'per_campaign': {}}
    nontrivial = set()
    sched_seen = set()
    violations = []
    errors = []
    samples = []
    digests = {}
    exit_code = 0
    with cf.ProcessPoolExecutor(max_workers=jobs, mp_context=ctx) as pool:
        for camp in camps:
            share = budget * camp.get('weight', 1.0) / total_w
            c_t0 = time.time()
            deadline = c_t0 + share
            chunk = camp.get('chunk', 25)
            base = args.seed * 1000003
            next_seed = [base]
            pending = set()
            c_agg = {'runs': 0, 'cases': 0, 'nontrivial': 0}
            c_nontriv = set()

            def submit():
                seeds = list(range(next_seed[0], next_seed[0] + chunk))
                next_seed[0] += chunk
                pending.add(pool.submit(
                    run_chunk, (camp['name'], prop, seeds, deadline, tier)))
            max_cases = camp.get('max_cases', {}).get(tier)
            for _ in range(jobs * 2):
                submit()
            while pending:
                done, _ = cf.wait(pending, timeout=900,
                                  return_when=cf.FIRST_COMPLETED)
                if not done:
                    print('HARNESS-ERROR worker timeout')
                    return 2
                for fut in done:
                    pending.discard(fut)
                    try:
                        r = fut.result()
                    except Exception:
                        print('HARNESS-ERROR worker died: %s' %
                              traceback.format_exc())
                        return 2
                    agg['runs'] += r['runs']
                    agg['cases'] += r['cases']
                    agg['invalid'] += r['invalid']
                    c_agg['runs'] += r['runs']
                    c_agg['cases'] += r['cases']
                    merge_stats(agg['stats'], r['stats'])
                    merge_stats(agg['verdicts'], r['verdicts'])
                    nontrivial.update(
                        camp['name'] + ':' + s for s in r['nontrivial'])
                    c_nontriv.update(r['nontrivial'])
                    sched_seen.update(r['sched'])
                    errors.extend(r['errors'])
                    violations.extend(
                        (camp, s, sc, res) for s, sc, res in r['violations'])
                    digests.update({(camp['name'], k): v
                                    for k, v in r['digests'].items()})
                    if len(samples) < 6:
                        samples.extend(r['samples'][:1])
                    relevant = sum(
                        1 for _, _, _, rs in violations
                        if prop in rs['violation']['props'] and
                        match_known(known, prop, rs['violation']) is None)
                    if len(violations) > 400:
                        violations[:] = [
                            x for x in violations
                            if prop in x[3]['violation']['props'] and
                            match_known(known, prop,
                                        x[3]['violation']) is None][:100]
                    stop = time.time() > deadline or relevant >= 20 \
                        or (max_cases and next_seed[0] - base >= max_cases)
                    if not stop:
                        submit()
            c_agg['nontrivial'] = len(c_nontriv)
            c_agg['wall_s'] = round(time.time() - c_t0, 2)
            agg['per_campaign'][camp['name']] = c_agg
        # ---- determinism self-test on a sample: same seed again, other
        # process, must give the same event-log digest
        redo = sorted(digests)[:: max(1, len(digests) // 24)][:24]
        futs = {}
        for cname, seed in redo:
            futs[pool.submit(run_chunk, (cname, prop, [seed],
                                         time.time() + 120, tier))] = (
                cname, seed)
        nondet = []
        for fut, key in futs.items():
            try:
                r = fut.result(timeout=300)
            except Exception:
                print('HARNESS-ERROR determinism re-run failed')
                return 2
            if r['digests'].get(key[1]) != digests[key]:
                nondet.append(key)
    # (reported further down: when the code under test keeps process-global
    # state, the divergence is a symptom of a violation, not of the harness)
    # ---- reach guard: a fault kind that a campaign is built around and
    # that never fired means the harness silently lost coverage
    fired = agg['stats'].get('faults', {})
    for camp in camps:
        mode = camp.get('mode', 'plain')
        cases = agg['per_campaign'].get(camp['name'], {}).get('cases', 0)
        if cases < 200:
            continue
        expect = []
        if mode == 'crash-sweep':
            expect = ['crash']
        elif mode == 'oserror-sweep':
            expect = list(camp.get('only_calls') or ['mkdir', 'gzwrite'])
            if expect == ['@cache']:
                # (the old cache file may be moved aside with rename or with
                # replace: not part of the reach guard)
                expect = ['gzopen_w', 'gzwrite', 'gzclose']
            if camp.get('torn', True) is False:
                expect = [e for e in expect if not e.startswith('gz')]
        elif camp['profile'] == 'C15':
            expect = ['refuse:trunc', 'refuse:flip', 'refuse:gz-drop']
        for e in expect:
            if not any(k.startswith(e) and v > 0 for k, v in fired.items()):
                print('HARNESS-ERROR fault kind %r never fired in campaign '
                      '%s (%d cases)' % (e, camp['name'], cases))
                exit_code = 2
    if errors:
        print('HARNESS-ERROR %d internal errors, first:\n%s' % (
            len(errors), errors[0]['error']))
        exit_code = 2
    # ---- violations
    reported = 0
    unreproducible = 0
    known_hits = {}
    incidental = {}
    seen_keys = set()
    for camp, seed, sc, res in violations:
        v = res['violation']
        if prop not in v['props']:
            k = (tuple(v['props']), v['oracle'], v['key'])
            incidental[k] = incidental.get(k, 0) + 1
            if incidental[k] == 1:
                path = write_replay('incidental', sc, res)
                print('INCIDENTAL props=%s oracle=%s key=%s replay=%s' % (
                    ','.join(v['props']), v['oracle'], v['key'], path))
            continue
        kf = match_known(known, prop, v)
        if kf is not None:
            known_hits[kf['id']] = known_hits.get(kf['id'], 0) + 1
            continue
        k = (v['oracle'], v['key'])
        if k in seen_keys:
            continue
        seen_keys.add(k)
        small, nruns = sc, 0
        res0 = res
        if not args.no_shrink:
            try:
                small, nruns = shrink(
                    sc, lambda x: campaigns.run_any(x, prop), k, prop=prop)
                from .shrink import minimise_schedule
                small, n2 = minimise_schedule(
                    small, lambda x: campaigns.run_any(x, prop), k, prop=prop)
                nruns += n2
                res2 = campaigns.run_any(small, prop)
                if vkey(res2, prop) == k:
                    res = res2
                else:
                    small = sc
            except Exception:
                small = sc
        path = write_replay(prop, small, res,
                            {'campaign': camp['name'], 'seed': seed,
                             'shrink_runs': nruns})
        # the replay file must reproduce the violation in a fresh process
        if not fresh_replay_fails(path, prop, k):
            if small is not sc:
                os.remove(path)
                path = write_replay(prop, sc, res0,
                                    {'campaign': camp['name'], 'seed': seed,
                                     'shrink_runs': nruns,
                                     'note': 'not minimised: the minimised '
                                     'form did not reproduce in a fresh '
                                     'process'})
            if small is sc or not fresh_replay_fails(path, prop, k):
                os.remove(path)
                seen_keys.discard(k)
                unreproducible += 1
                continue
            res = res0
        print('violation: campaign=%s seed=%d oracle=%s key=%s detail=%s' % (
            camp['name'], seed, v['oracle'], v['key'],
            json.dumps(res['violation']['detail'])[:600]))
        print('VIOLATION property=%s replay=%s' % (prop, path))
        reported += 1
        exit_code = max(exit_code, 1)
    # known findings recorded in the file: replay each, report if it still
    # fails the recorded way
    for k in known:
        if k.get('status') == 'known' and k['property'] == prop:
            rp = os.path.join(VERIF, k['replay'])
            # replayed in a fresh interpreter with the hash seed recorded in
            # the replay file
            import subprocess
            out = subprocess.run(
                [sys.executable, os.path.join(VERIF, 'bin', 'check_main.py'),
                 '--replay', rp], capture_output=True, text=True,
                timeout=300).stdout
            if 'oracle=%s key=%s ' % (k['oracle'], k['key']) in out:
                print('KNOWN-FINDING: property=%s %s (%s; also hit %d times '
                      'in this search)' % (prop, k['what'], k['id'],
                                           known_hits.get(k['id'], 0)))
    if unreproducible:
        print('%s %d violation(s) seen during the search did not '
              'reproduce from their replay file in a fresh process'
              % ('NOTE' if reported else 'HARNESS-ERROR', unreproducible))
        if not reported:
            exit_code = 2
    if nondet:
        if reported:
            print('NOTE event logs differ between worker processes for %r '
                  '(process-global state in the code under test?)'
                  % (nondet,))
        else:
            print('HARNESS-ERROR nondeterministic event log for %r'
                  % (nondet,))
            return 2
    wall = time.time() - t0
    if not args.no_evidence:
        agg['distinct_schedules'] = len(sched_seen)
        write_evidence(prop, tier, args.seed, camps, agg, nontrivial,
                       samples, wall, reported, known_hits, incidental, jobs)
    print('done property=%s cases=%d runs=%d invalid=%d nontrivial=%d '
          'violations=%d wall=%.1fs' % (
              prop, agg['cases'], agg['runs'], agg['invalid'],
              len(nontrivial), reported, wall))
    return exit_code


def write_evidence(prop, tier, seed, camps, agg, nontrivial, samples, wall,
                   reported, known_hits, incidental, jobs):
    from . import campaigns
    level = campaigns.LEVEL.get(prop, 'exploration')
    st = agg['stats']
    ev = {
        'property_id': prop,
        'tier': tier,
        'seed': seed,
        'level': level,
        'coverage': {
            'evaluations': agg['runs'],
            'distinct_nontrivial': len(nontrivial),
            'rule': 'one case = one seeded scenario (generated program + '
            'history + faults/schedule), run against the real package and '
            'the reference model; distinct = distinct digest of the '
            'scenario (program, history, config). Campaigns: ' +
            '; '.join('%s: %s [%s]' % (
                c['name'], c.get('rule', ''),
                campaigns.NT_RULES.get(c['nontrivial'].__name__, ''))
                for c in camps),
            'distinct_interleavings': agg.get('distinct_schedules', 0),
            'interleaving_measure': 'distinct digests of the sequence of '
            'scheduler decisions (thread chosen at each decision point) per '
            'build',
            'samples': samples[:4],
            'cases': agg['cases'],
            'invalid_discarded': agg['invalid'],
            'per_campaign': agg['per_campaign'],
            'runs_per_hour': int(agg['runs'] / max(wall, 1e-9) * 3600),
            'seeds_per_hour': int(agg['cases'] / max(wall, 1e-9) * 3600),
            'workers': jobs,
            'simulated_clock_span_s': st.get('clock_span_s', 0),
            'builds': st.get('builds', 0),
            'commits': st.get('commits', 0),
            'rollbacks': st.get('rollbacks', 0),
            'cleans': st.get('cleans', 0),
            'calls_served_from_cache': st.get('served', 0),
            'calls_executed': st.get('executed', 0),
            'statements_interpreted': st.get('stmts', 0),
            'reexecution_causes': st.get('causes', {}),
            'fault_kinds_fired': st.get('faults', {}),
            'schedules': st.get('schedules', {}),
            'probes': st.get('probes', {}),
            'verdicts': agg['verdicts'],
            'known_finding_hits': known_hits,
            'incidental_other_property': {
                '/'.join(map(str, k)): v for k, v in incidental.items()},
            'real_components': [
                'file_builder package (all modules, unmodified source)',
                'gzip/json/hashlib', 'kernel tmpfs file system'],
            'stubbed_components': [
                'mtimes (set from simulated clock)', 'temp dir naming',
                'listdir order (seeded permutation)',
                'lock objects and thread choice (scheduler campaigns)',
                'injected OSError / crash points'],
            'exhaustive': False,
        },
        'assumptions': campaigns.ASSUMPTIONS,
        'wall_s': round(wall, 2),
        'violations': reported,
    }
    d = os.path.join(VERIF, 'evidence')
    os.makedirs(d, exist_ok=True)
    with open(os.path.join(d, prop + '.json'), 'w') as f:
        json.dump(ev, f, indent=1, sort_keys=True, default=str)


if __name__ == '__main__':
    sys.exit(main())
