"""Seeded scenario generator.  The only consumer of the PRNG.

``generate(profile, seed)`` returns a self-contained JSON scenario; running it
needs neither the seed nor this module.
"""
import copy
import random

NAMES = ['a', 'b', 'c']
QUERY_KINDS = ['exists', 'is_file', 'is_dir', 'list_dir', 'walk', 'walk_bu',
               'get_size', 'read_text', 'read_binary', 'declare_read']
USER_EXC = ['UserError', 'ValueError', 'KeyError', 'FileNotFoundError',
            'RuntimeError', 'IsADirectoryError']

DEFAULT = dict(
    n_paths=(4, 8), depth=3, n_file_funcs=(1, 4), n_sub_funcs=(1, 3),
    n_groups=(1, 2), body_len=(1, 5), max_nest=3, n_steps=(2, 6),
    p_catch=0.6, p_hash=0.3, w_q=40, w_bf=22, w_sb=16, w_if=8, w_raise=5,
    w_dup=0, p_mutate_step=0.35, p_clean_step=0.07, p_version_change=0.15,
    p_two_variants=0.5, n_init=(0, 5), p_write_never=0.04,
    p_write_unlink=0.04, p_write_twice=0.1, p_nonjson=0.03,
    p_cache_ops=0.08, cache_rels=['../cache.gz', '../cache.gz', 'cache.gz',
                                  '../cd/cache.gz'],
    query_kinds=QUERY_KINDS, p_tamper=0.3, args_pool='small',
    p_spelling=0.0, p_get_size=1.0, w_probe=0, w_mut=3, p_ret_val=0.0,
    names=None, p_q_spelling=0.0, p_chdir_step=0.0, p_tick0=0.0,
    p_tick_back=0.0, mutation_ops=['write', 'write', 'rm', 'rm', 'mkdir',
                                   'touch'],
    p_refuse_step=0.0, n_muts=(1, 3), p_q_near_output=0.5, p_plant=0.2, p_double_clean=0.0,
    p_plain_build=0.15, p_swap_groups=0.0, p_swap_dense=0.0, p_fail_after_nested=0.0,
    p_switch_root=0.3, p_anc_target=0.0, p_stepargs=0.0, p_chain=0.0,
    p_retry=0.0, p_cache_in_output_dir=0.0, p_cache_target=0.02,
    p_stepcmp=0.0, p_weird_names=0.05,
    p_plain_bf=0.1,
)

# JSON values for arguments / return values / versions (C07, C16)
RICH_VALUES = [
    None, True, False, 0, 1, -1, 2, 1.0, 1.5, -0.0, 2 ** 53 + 1, 2 ** 64,
    {'__float__': 'inf'}, '', 'a', '0', '1', 'true', 'null', '\u00e9',
    '\U0001f600', 'a b', [], [1], [1, 2], [2, 1], [[1]], [None], [True],
    {}, {'a': 1}, {'a': 1, 'b': 2}, {'b': 2, 'a': 1}, {'a': [1, {'b': None}]},
    {'1': 'x'}, {'__dict__': [[1, 'x']]}, {'__dict__': [[True, 'x']]},
    {'__dict__': [[None, 0]]}, {'__dict__': [[1.5, 0]]},
    {'__tuple__': [1, 2]}, {'__tuple__': []}, [{'__tuple__': [1]}],
    {'a': {'__tuple__': [1, [2]]}}, 1e300, 1e-7, 'x' * 40,
    # lone surrogates: how Python spells undecodable bytes of file names
    '\udce9t\udce9', 'a\ud800', {'\udcff': ['\udc80']},
]


def ancestors(rel):
    parts = rel.split('/')
    return ['/'.join(parts[:i]) for i in range(1, len(parts))]


# families of values that are easy to confuse: members of one inner list
# are JSON-equal, different inner lists of a family are near misses
CONFUSABLE = [
    [[1, 1.0], [True], ['1']],
    [[0, -0.0, 0.0], [False], [None], ['']],
    [[[1, 2], {'__tuple__': [1, 2]}], [[2, 1]], [[1, 2, None]]],
    [[{'a': None}], [{'b': None}], [{}], [{'a': None, 'b': None}]],
    [[{'1': 'x'}, {'__dict__': [[1, 'x']]}], [{'__dict__': [[True, 'x']]}],
     [{'__dict__': [[1.0, 'x']]}]],
    [[{'a': 1, 'b': 2}, {'b': 2, 'a': 1}], [{'a': 2, 'b': 1}]],
    [[[]], [{}], [None], [''], [[[]]]],
    [[2 ** 53, 2.0 ** 53], [2 ** 53 + 1]],
    [[{'a': [1, {'b': None}]}], [{'a': [1, {'b': 0}]}], [{'a': [1, {}]}]],
    [[[True]], [[1]]],
    [[{'k': {'__tuple__': [1]}}, {'k': [1]}], [{'k': [1.5]}]],
    [['\u00e9'], ['e\u0301']],
]

REFUSALS = [
    'trunc0', 'trunc1', 'trunc10', 'truncmid', 'trunclast', 'flip-header',
    'flip-body', 'flip-trailer', 'gz-nonjson', 'gz-list', 'gz-other-software',
    'gz-newer-version', 'gz-missing-keys', 'not-gzip', 'dir-at-cache',
    'gz-drop:createdDirs', 'gz-drop:rootOperations', 'gz-drop:buildName',
    'gz-drop:funcVersions', 'gz-drop:operationVersions',
    'gz-drop:cacheFileVersion', 'gz-drop:software', 'clean-gz-drop',
    'gz-null', 'gz-string', 'gz-nested', 'gz-nested', 'clean-gz-nested',
    'wrong-name', 'name-not-str', 'func-not-callable', 'versions-not-dict',
    'versions-not-json', 'clean-wrong-name', 'clean-name-not-str',
    'clean-trunc', 'clean-not-gzip', 'cache-path-bad-type',
]


class Gen:
    def __init__(self, seed, params=None):
        self.rng = random.Random(seed)
        self.seed = seed
        self.p = dict(DEFAULT)
        if params:
            self.p.update(params)
        self.ext_counter = 0

    # ------------------------------------------------------------------
    def ri(self, key):
        lo, hi = self.p[key]
        return self.rng.randint(lo, hi)

    def chance(self, key):
        return self.rng.random() < self.p[key]

    def gen_universe(self):
        rng = self.rng
        n = self.ri('n_paths')
        names = NAMES[:rng.randint(2, 3)]
        if rng.random() < self.p.get('p_prefix_names', 0.12):
            # names that are string prefixes of each other ("a" / "ab" /
            # "a.b"): a path prefix is not a string prefix
            names = rng.sample(['a', 'ab', 'a.b', 'a-', 'b', 'ba'], 3)
        if self.p['names']:
            names = list(self.p['names'])
            rng.shuffle(names)
            names = names[:rng.randint(2, 4)]
        U = set()
        tries = 0
        while len(U) < n and tries < 100:
            tries += 1
            d = rng.randint(1, self.p['depth'])
            rel = '/'.join(rng.choice(names) for _ in range(d))
            U.add(rel)
        U = sorted(U)
        return U

    def antichain(self, U, k):
        rng = self.rng
        avoid = getattr(self, 'cache_dir_mode', None) or ()
        cand = [u for u in U if u not in avoid]
        rng.shuffle(cand)
        out = []
        for c in cand:
            if len(out) >= k:
                break
            if any(c == o or c.startswith(o + '/') or o.startswith(c + '/')
                   for o in out):
                continue
            out.append(c)
        return sorted(out)

    def rich_value(self):
        rng = self.rng
        v = rng.choice(RICH_VALUES)
        if rng.random() < 0.25:
            v = [v, rng.choice(RICH_VALUES)]
        elif rng.random() < 0.15:
            v = {'k': v}
        return v

    def step_value(self):
        """A value that changes from build to build within one family."""
        rng = self.rng
        if rng.random() < 0.2:
            # a container and what it looks like after an in-place edit by
            # user code (see interp._mutate_value)
            return {'__step__': rng.choice([
                [[1], [1, 'MUT']], [{'k': 1}, {'k': 1, 'MUT': 1}],
                [[[1]], [[1, 'MUT'], 'MUT']], [[1, 'MUT'], [1]],
                [{'k': [1]}, {'k': [1, 'MUT'], 'MUT': 1}, {'k': [1]}]])}
        fam = rng.choice(CONFUSABLE)
        alts = []
        for _ in range(rng.randint(2, 3)):
            alts.append(rng.choice(rng.choice(fam)))
        return {'__step__': alts}

    def small_args(self, top=True):
        rng = self.rng
        # (arguments that change from build to build only at call sites of
        # the root function: inside a cacheable function they would be a
        # hidden input, i.e. the function would not be deterministic)
        if top and self.chance('p_stepargs'):
            v = self.step_value()
            r = rng.random()
            if r < 0.4:
                return [v], {}
            if r < 0.7:
                return [], {'k': v}
            return [[v, 1]], {}
        if self.p['args_pool'] == 'rich':
            args = [self.rich_value() for _ in range(rng.randint(0, 2))]
            kwargs = {}
            if rng.random() < 0.4:
                kwargs[rng.choice(['k', 'z'])] = self.rich_value()
            return args, kwargs
        pool = [[], [], [1], [2], ['x'], [[1, 2]], [{'k': 1}], [None],
                [True], [1.5], [{'b': 1, 'a': [2]}], [3, 'x']]
        args = list(rng.choice(pool))
        # (keyword arguments and dict keys also in non-alphabetical order:
        # the cache file is written with sorted keys)
        kwargs = rng.choice([{}, {}, {}, {'k': 1}, {'k': [1]}, {'z': None},
                             {'z': None, 'k': 1}, {'w': 80, 'h': {'y': 1,
                                                                  'x': 2}}])
        return args, copy.deepcopy(kwargs)

    # ------------------------------------------------------------------
    def gen_query(self, U):
        rng = self.rng
        if getattr(self, 'cache_dir_mode', None):
            # the cache file lives in a directory that also holds outputs:
            # when that directory appears in the view is unspecified, so
            # programs only ask file-level questions about leaf paths
            avoid = self.cache_dir_mode
            leaves = [u for u in U if u not in avoid and not any(
                v.startswith(u + '/') for v in U)] or ['zz']
            kind = rng.choice(['exists', 'is_file', 'read_text',
                               'declare_read', 'read_binary'])
            st = ['q', kind, rng.choice(leaves)]
            if kind != 'exists' and kind != 'is_file':
                st.append('HASH' if self.chance('p_hash') else 'METADATA')
            return st
        kind = rng.choice(self.p['query_kinds'])
        pool = list(U) + [''] + [a for u in U for a in ancestors(u)]
        rel = rng.choice(pool)
        O = getattr(self, 'cur_O', None)
        if O and rng.random() < self.p['p_q_near_output']:
            # ask about what builds touch: outputs, their ancestors, siblings
            o = rng.choice(O)
            near = [o] + ancestors(o)
            rel = rng.choice(near)
        if kind == 'get_size':
            # sizes of directories are outside the universe: aim at paths
            # that are likely to be regular files
            leaves = [u for u in U if not any(
                v.startswith(u + '/') for v in U)]
            if leaves and self.chance('p_get_size'):
                rel = rng.choice(leaves)
            else:
                kind = 'exists'
        st = ['q', kind, rel]
        if kind in ('read_text', 'read_binary', 'declare_read'):
            st.append('HASH' if self.chance('p_hash') else 'METADATA')
            if self.chance('p_stepcmp'):
                st[-1] = {'__step__': rng.choice([['HASH', 'METADATA'],
                                                  ['METADATA', 'HASH']])}
        if self.chance('p_q_spelling'):
            if len(st) == 3:
                st.append('METADATA')
            st.append(rng.choice(['bytes', 'pathlike', 'redundant', 'rel']))
        return st

    def gen_body(self, ctx, fid_index, nest, is_file):
        """ctx: dict(U, O, files, subs) ; fid_index: only call later fids."""
        rng = self.rng
        p = self.p
        n = self.ri('body_len')
        body = []
        weights = [('q', p['w_q']), ('bf', p['w_bf']), ('sb', p['w_sb']),
                   ('if', p['w_if']), ('raise', p['w_raise']),
                   ('dup', p['w_dup']), ('probe', p['w_probe']),
                   ('mut', p['w_mut'])]
        if nest >= p['max_nest']:
            weights = [(k, w) for k, w in weights
                       if k in ('q', 'raise', 'probe', 'mut')]
        kinds = [k for k, w in weights]
        ws = [w for k, w in weights]
        for _ in range(n):
            k = rng.choices(kinds, ws)[0]
            if k == 'q':
                body.append(self.gen_query(ctx['U']))
            elif k == 'bf':
                cands = [f for f in ctx['files'] if f[0] > fid_index]
                if not cands or not ctx['O']:
                    body.append(self.gen_query(ctx['U']))
                    continue
                fi, fid = rng.choice(cands)
                rel = rng.choice(ctx['O'])
                if self.chance('p_anc_target'):
                    # a target above / below another target of the same
                    # program (meaningful when one of the two calls fails)
                    if '/' in rel and rng.random() < 0.5:
                        rel = rel.rsplit('/', 1)[0]
                    elif rel.count('/') < 2:
                        rel = rel + '/' + rng.choice(NAMES[:2])
                if self.chance('p_cache_target'):
                    # the cache file itself, or something below it
                    rel = self.cur_cache_rel + rng.choice(['', '/x'])
                args, kwargs = self.small_args(fid_index == -1)
                cmp = 'HASH' if self.chance('p_hash') else 'METADATA'
                if self.chance('p_stepcmp'):
                    # the comparison mode of this call site changes from
                    # build to build
                    cmp = {'__step__': rng.choice([
                        ['HASH', 'METADATA'], ['METADATA', 'HASH'],
                        ['HASH', 'METADATA', 'METADATA'],
                        ['METADATA', 'HASH', 'HASH']])}
                st = ['bf', rel, fid, args, kwargs, cmp,
                      self.chance('p_catch')]
                if self.chance('p_spelling'):
                    st.append(rng.choice(
                        ['bytes', 'pathlike', 'redundant', 'dotdot', 'rel',
                         'rel', 'cwdname', 'cwdname']))
                elif cmp == 'METADATA' and self.chance('p_plain_bf'):  # noqa
                    st.append('plain')      # FileBuilder.build_file
                body.append(st)
                ctx['calls'].append(st)
                if self.chance('p_retry'):
                    # "try again with other arguments when it fails": the
                    # first call uses arguments that change from build to
                    # build, the retry uses the previous build's arguments
                    if rng.random() < 0.5:
                        a, b = rng.sample([1, 2, 'x', [1], {'k': 1}, None], 2)
                        st[3] = [{'__step__': [a, b]}]
                        st[4] = {}
                        st[6] = True
                        retry = list(st)
                        retry[3] = [{'__step__': [b, a]}]
                    else:
                        # "just try again": the very same call
                        st[6] = True
                        retry = list(st)
                    body.append(['if', ['lasterr'], [retry], []])
            elif k == 'sb':
                cands = [f for f in ctx['subs'] if f[0] > fid_index]
                if not cands:
                    body.append(self.gen_query(ctx['U']))
                    continue
                fi, fid = rng.choice(cands)
                args, kwargs = self.small_args(fid_index == -1)
                st = ['sb', fid, args, kwargs, self.chance('p_catch')]
                body.append(st)
                ctx['calls'].append(st)
            elif k == 'if':
                pred = rng.choice([['bit', rng.randint(0, 7)], ['lasterr'],
                                   ['lasttrue']])
                body.append(['if', pred,
                             self.gen_body_short(ctx, fid_index, nest + 1),
                             self.gen_body_short(ctx, fid_index, nest + 1)])
            elif k == 'raise':
                body.append(['raise', rng.choice(USER_EXC)])
            elif k == 'probe':
                pool = sorted(set(
                    list(ctx['U']) + [''] +
                    [a for u in ctx['U'] for a in ancestors(u)]))
                body.append(['probe', pool])
            elif k == 'mut':
                body.append(['mut', rng.choice(['last', 'last', 'args',
                                                'callargs', 'versions'])])
            elif k == 'dup':
                if ctx['calls']:
                    body.append(list(rng.choice(ctx['calls'])))
                    body[-1] = [x for x in body[-1]]
                    if body[-1][0] == 'bf':
                        body[-1][6] = self.chance('p_catch')
                    else:
                        body[-1][4] = self.chance('p_catch')
        if is_file and not getattr(self, 'cache_dir_mode', None) and \
                rng.random() < p.get('p_self_list', 0.06):
            # the function looks at the directory it works in
            body.insert(rng.randint(0, len(body)),
                        ['q', rng.choice(['list_dir', 'walk', 'is_dir',
                                          'list_dir']), '@parent'])
        if is_file:
            r = rng.random()
            if r < p['p_write_never']:
                pass
            else:
                mode = 'once'
                r = rng.random()
                if r < p['p_write_unlink']:
                    mode = 'unlink'
                elif r < p['p_write_unlink'] + p['p_write_twice']:
                    mode = 'twice'
                body.insert(rng.randint(0, len(body)), ['w', mode])
        if is_file and self.chance('p_fail_after_nested') and any(
                st[0] in ('bf', 'sb') for st in body):
            body.append(['raise', rng.choice(USER_EXC)])
        if self.chance('p_nonjson'):
            body.append(['ret', 'nonjson'])
        elif self.chance('p_ret_val'):
            body.append(['ret', 'pyval', self.rich_value()])
        return body

    def gen_body_short(self, ctx, fid_index, nest):
        save = self.p['body_len']
        self.p['body_len'] = (0, 2)
        try:
            return self.gen_body(ctx, fid_index, nest, False)
        finally:
            self.p['body_len'] = save

    # ------------------------------------------------------------------
    WEIRD_NAMES = ['exists', 'get_size', 'is_dir', 'is_file', 'list_dir',
                   'read', 'walk', '', 'build_file', 'subbuild', 'same',
                   'same', 'None', 'n\u00e9']

    def func_name(self, fid):
        """Function names are arbitrary user strings: sometimes the name of
        a simple operation, the empty string, or a name shared by two
        functions (which then share one version)."""
        if self.chance('p_weird_names'):
            return self.rng.choice(self.WEIRD_NAMES)
        return 'n' + fid

    def gen_chain(self, U, idx0):
        """A structured program: a chain of nested build_file / subbuild
        calls, each level with its own failure mode and catch clause, plus
        leaf outputs next to it.  Random soup rarely produces deep chains in
        which an inner level succeeds and an outer one fails afterwards."""
        rng = self.rng
        depth = rng.randint(2, 4)
        # "forced" shape: two nested build_file levels that both fail (caught)
        # inside a subbuild that then looks at the common directory
        forced = not getattr(self, 'cache_dir_mode', None) and \
            rng.random() < self.p.get('p_chain_family', 0.35) * 0.3
        if forced:
            depth = 3
        O = [o for o in self.antichain(U, depth + 2) if '/' in o]
        tries = 0
        while len(O) < depth + 2 and tries < 60:
            tries += 1
            cand = '/'.join(rng.choice(NAMES) for _ in range(rng.randint(2, 3)))
            if cand in (getattr(self, 'cache_dir_mode', None) or ()):
                continue
            if not any(cand == o or cand.startswith(o + '/') or
                       o.startswith(cand + '/') for o in O):
                O.append(cand)
        family = None
        if forced or (not getattr(self, 'cache_dir_mode', None) and
                      rng.random() < self.p.get('p_chain_family', 0.35)):
            # all levels work in sibling directories below one common
            # directory (reference counts of shared ancestors: a failing
            # level must release exactly what it reserved)
            family = rng.choice(NAMES)
            self.families = getattr(self, 'families', []) + [family]
            if forced:
                self.forced_families = getattr(
                    self, 'forced_families', []) + [family]
            avoid = getattr(self, 'cache_dir_mode', None) or ()
            subs_ = ['a', 'b', 'c', 'd', 'e', 'f']
            rng.shuffle(subs_)
            O = ['%s/%s/%s' % (family, d, rng.choice(NAMES))
                 for d in subs_[:depth + 2]]
            O = [o for o in O if o not in avoid]
        paths = list(O)
        rng.shuffle(paths)
        funcs = {}
        leaf = 'F%d' % idx0
        funcs[leaf] = {'kind': 'file', 'name': 'n' + leaf, 'variants': [
            [['w', 'once']]]}
        idx = idx0 + 1
        call = None             # statement that calls the level below
        for lvl in range(depth):
            kind = 'file' if (lvl == 0 or rng.random() < 0.65) else 'sub'
            if forced:
                kind = 'file' if lvl < 2 else 'sub'
            fid = ('F%d' if kind == 'file' else 'S%d') % idx
            idx += 1
            body = []
            for _ in range(rng.randint(0, 2)):
                body.append(self.gen_query(U))
            if call is not None:
                body.append(call)
            if rng.random() < 0.5 and paths:
                body.append(['bf', paths.pop(), leaf, [lvl], {},
                             rng.choice(['METADATA', 'HASH']), True])
            for _ in range(rng.randint(0, 2)):
                body.append(self.gen_query(U))
            if family is not None and (rng.random() < 0.6 or
                                       (forced and kind == 'sub')):
                body.append(['q', rng.choice(['is_dir', 'exists', 'list_dir',
                                              'walk']), family])
            mode = rng.choice(['ok', 'ok', 'ok', 'raise_after',
                               'raise_after', 'raise_before', 'nowrite',
                               'unlink'] if kind == 'file' else
                              ['ok', 'ok', 'ok', 'raise_after'])
            if forced:
                mode = rng.choice(['raise_after', 'nowrite', 'unlink',
                                   'raise_after']) if kind == 'file' else 'ok'
            if kind == 'file':
                if mode == 'raise_before':
                    body.insert(0, ['raise', rng.choice(USER_EXC)])
                elif mode == 'unlink':
                    body.append(['w', 'unlink'])
                elif mode != 'nowrite':
                    body.insert(rng.randint(0, len(body)), ['w', 'once'])
            if mode == 'raise_after':
                body.append(['raise', rng.choice(USER_EXC)])
            funcs[fid] = {'kind': kind, 'name': self.func_name(fid),
                          'variants': [body]}
            catch = forced or rng.random() < 0.8
            if kind == 'file':
                if not paths:
                    paths = list(O)
                call = ['bf', paths.pop(), fid, [], {},
                        rng.choice(['METADATA', 'HASH']), catch]
            else:
                call = ['sb', fid, [], {}, catch]
        root = []
        for _ in range(rng.randint(0, 2)):
            root.append(self.gen_query(U))
        call = list(call)
        call[6 if call[0] == 'bf' else 4] = True
        root.append(call)
        for _ in range(rng.randint(0, 3)):
            root.append(self.gen_query(U))
        if family is not None:
            root.append(['q', rng.choice(['is_dir', 'list_dir', 'walk']),
                         family])
        files = [f for f in funcs if funcs[f]['kind'] == 'file']
        subs = [f for f in funcs if funcs[f]['kind'] == 'sub']
        return funcs, root, {'O': O, 'files': files, 'subs': subs}, idx

    def gen_program(self, U):
        rng = self.rng
        funcs = {}
        roots = []
        groups = []
        ng = self.ri('n_groups')
        idx = 0
        if self.chance('p_chain'):
            for g in range(ng):
                self.cur_O = None
                f, root, grp, idx = self.gen_chain(U, idx)
                self.cur_O = grp['O']
                funcs.update(f)
                roots.append(root)
                groups.append(grp)
            self.U_final = sorted(set(U) | set(
                o for g in groups for o in g['O']))
            return funcs, roots, groups
        prev_O = None
        for g in range(ng):
            O = self.antichain(U, rng.randint(1, 4))
            if prev_O and self.chance('p_swap_groups'):
                # outputs of this group sit above / below the other group's:
                # file <-> directory swaps of outputs between builds
                O = []
                for o in prev_O:
                    r = rng.random()
                    if r < 0.3:
                        c = o + '/' + rng.choice(NAMES[:2])
                    elif r < 0.5 and o.count('/') < 2:
                        # two levels below a former output file
                        c = o + '/' + rng.choice(NAMES[:2]) + '/' + \
                            rng.choice(NAMES[:2])
                    elif r < 0.75 and '/' in o:
                        c = o.rsplit('/', 1)[0]
                    else:
                        c = o
                    if not any(c == x or c.startswith(x + '/') or
                               x.startswith(c + '/') for x in O):
                        O.append(c)
                U = sorted(set(U) | set(O))
            prev_O = O
            nf = self.ri('n_file_funcs')
            ns = self.ri('n_sub_funcs')
            order = ['file'] * nf + ['sub'] * ns
            rng.shuffle(order)
            files, subs = [], []
            specs = []
            for kind in order:
                fid = ('F%d' if kind == 'file' else 'S%d') % idx
                specs.append((idx, fid, kind))
                (files if kind == 'file' else subs).append((idx, fid))
                idx += 1
            ctx = {'U': U, 'O': O, 'files': files, 'subs': subs, 'calls': []}
            self.cur_O = O
            for i, fid, kind in specs:
                nv = 2 if self.chance('p_two_variants') else 1
                variants = [self.gen_body(ctx, i, 1, kind == 'file')
                            for _ in range(nv)]
                funcs[fid] = {'kind': kind, 'name': self.func_name(fid),
                              'variants': variants}
            save = self.p['w_raise']
            self.p['w_raise'] = save * 0.4
            root = self.gen_body(ctx, -1, 0, False)
            # the root always does something cacheable
            if not any(s[0] in ('bf', 'sb') for s in root):
                if files and O:
                    fi, fid = rng.choice(files)
                    root.append(['bf', rng.choice(O), fid, [], {},
                                 'METADATA', True])
                elif subs:
                    fi, fid = rng.choice(subs)
                    root.append(['sb', fid, [], {}, True])
            self.p['w_raise'] = save
            if files and O and self.chance('p_swap_dense'):
                # dense form: the root builds every output of its group
                # itself, so that consecutive builds with alternating roots
                # really swap files and directories (make_room with nested
                # stale directories, directories replacing stale files)
                dense = []
                for o in rng.sample(O, len(O)):
                    fi, fid = rng.choice(files)
                    dense.append(['bf', o, fid, [], {},
                                  rng.choice(['METADATA', 'HASH']), True])
                    if rng.random() < 0.4:
                        dense.append(self.gen_query(U))
                root = dense + [st for st in root if st[0] != 'bf']
            if not getattr(self, 'cache_dir_mode', None) and \
                    rng.random() < self.p.get('p_overlap_struct', 0.0):
                # structured overlap inside one cacheable parent: a failing
                # build_file below D whose function looks at the directory it
                # works in, and a build_file of D itself as a regular file
                D = rng.choice(['v', 'u/v', 'v'])
                x = D + '/' + rng.choice(['x', 'y/x'])
                fl, fo, par = 'F%dl' % idx, 'F%do' % idx, 'P%d' % idx
                idx += 1
                lister = [['q', rng.choice(['list_dir', 'walk', 'walk_bu',
                                            'is_dir', 'list_dir']),
                           '@parent']]
                mode = rng.choice(['nowrite', 'raise_after', 'unlink'])
                if mode == 'raise_after':
                    lister = [['w', 'once']] + lister + [
                        ['raise', rng.choice(USER_EXC)]]
                elif mode == 'unlink':
                    lister = lister + [['w', 'unlink']]
                if rng.random() < 0.4:
                    # the listing happens one level further down
                    sl = 'S%dl' % (idx - 1)
                    funcs[sl] = {'kind': 'sub', 'name': 'n' + sl,
                                 'variants': [[['q', 'list_dir', D]]]}
                    lister = [['sb', sl, [], {}, True]] + [
                        st for st in lister if st[0] != 'q']
                funcs[fl] = {'kind': 'file', 'name': 'n' + fl,
                             'variants': [lister]}
                funcs[fo] = {'kind': 'file', 'name': 'n' + fo,
                             'variants': [[['w', 'once']]]}
                calls = [['bf', x, fl, [], {}, 'METADATA', True],
                         ['bf', D, fo, [], {},
                          rng.choice(['METADATA', 'HASH']), True]]
                if rng.random() < 0.25:
                    calls.reverse()
                pbody = [calls[0]] + [self.gen_query(U) for _ in range(
                    rng.randint(0, 1))] + [calls[1]]
                if rng.random() < 0.5:
                    funcs[par] = {'kind': 'sub', 'name': 'n' + par,
                                  'variants': [pbody]}
                    root.insert(rng.randint(0, len(root)),
                                ['sb', par, [], {}, True])
                else:
                    funcs[par] = {'kind': 'file', 'name': 'n' + par,
                                  'variants': [pbody + [['w', 'once']]]}
                    root.insert(rng.randint(0, len(root)),
                                ['bf', 'pp%d' % idx, par, [], {}, 'HASH',
                                 True])
                U = sorted(set(U) | {D, x})
            roots.append(root)
            groups.append({'O': O, 'files': [f for _, f in files],
                           'subs': [f for _, f in subs]})
        if len(roots) > 1 and not getattr(self, 'cache_dir_mode', None) and \
                rng.random() < self.p.get('p_cycle', 0.0):
            # a call graph that closes on itself through the cache: one root
            # records P -> [file g, S]; the other root runs S, which (g being
            # virtually gone) calls P - whose recorded subtree contains the
            # S that is running right now
            g = 'cy/g'
            args = rng.choice([[], [1], [{'k': 1}]])
            funcs['Fcy'] = {'kind': 'file', 'name': 'nFcy',
                            'variants': [[['w', 'once']]]}
            funcs['Scy'] = {'kind': 'sub', 'name': 'nScy', 'variants': [[
                ['q', 'exists', g],
                ['if', ['lasttrue'], [], [['sb', 'Pcy', [], {}, True]]]]]}
            funcs['Pcy'] = {'kind': 'sub', 'name': 'nPcy', 'variants': [[
                ['bf', g, 'Fcy', [], {}, rng.choice(['METADATA', 'HASH']),
                 True],
                ['sb', 'Scy', args, {}, True]]]}
            roots[0].insert(rng.randint(0, len(roots[0])),
                            ['sb', 'Pcy', [], {}, True])
            roots[1].insert(0, ['sb', 'Scy', args, {}, True])
            U = sorted(set(U) | {g})
        self.U_final = U
        return funcs, roots, groups

    # ------------------------------------------------------------------
    def ext_content(self):
        self.ext_counter += 1
        return 'ext%d' % self.ext_counter + 'y' * self.rng.randint(0, 2)

    def gen_mutation(self, U, O_all):
        rng = self.rng
        r = rng.random()
        pool = list(U) + [a for u in U for a in ancestors(u)]
        if r < self.p['p_cache_ops']:
            return [rng.choice([['rmcache'], ['savecache', 0],
                                ['restorecache', 0]])]
        if O_all and rng.random() < self.p.get('p_dir2file', 0.04):
            # a foreign file appears where builds create a directory
            dirs_ = sorted(set(a for o in O_all for a in ancestors(o)))
            if dirs_:
                return [['write', rng.choice(dirs_), self.ext_content()]]
        if O_all and rng.random() < self.p['p_tamper']:
            rel = rng.choice(O_all)
        else:
            rel = rng.choice(pool)
        if getattr(self, 'cache_dir_mode', None) and \
                rel in self.cache_dir_mode:
            return [['touch', rel]]
        if self.chance('p_plant'):
            # a foreign file next to / below something the build manages
            base = rng.choice(pool)
            rel = base + '/' + rng.choice(['p', 'q']) if rng.random() < 0.7 \
                else rng.choice(['p', 'q'])
            return [['write', rel, self.ext_content()]]
        op = rng.choice(self.p['mutation_ops'])
        if op == 'write':
            return [['write', rel, self.ext_content()]]
        return [[op, rel]]

    def gen_init(self, U):
        rng = self.rng
        init = []
        for _ in range(self.ri('n_init')):
            rel = rng.choice(U)
            if rng.random() < 0.7:
                init.append(['write', rel, self.ext_content()])
            else:
                init.append(['mkdir', rel])
        return init

    def gen_versions(self, funcs, prev):
        rng = self.rng
        v = dict(prev)
        if self.chance('p_version_change'):
            names = sorted(f['name'] for f in funcs.values())
            name = rng.choice(names)
            old = prev.get(name)
            v[name] = rng.choice([1, 2, 'v', None, [1], {'a': 1}, 1.0, True,
                                  0, False, '', [], {}, 0.0, [None],
                                  {'a': None}, 2 ** 60, '\u00e9', -1,
                                  {'a': None, 'r': 1}, {'r': 1, 'b': None}])
            if isinstance(old, dict) and old and rng.random() < 0.5:
                # a near miss of the previous value: one key renamed (also a
                # key whose value is None), one value changed, key order
                k = rng.choice(sorted(old))
                near = dict(old)
                r = rng.random()
                if r < 0.5:
                    near.pop(k)
                    near[k + 'x'] = rng.choice([3, None, old[k]])
                elif r < 0.8:
                    near[k] = [old[k]]
                else:
                    near = dict(reversed(list(old.items())))
                v[name] = near
            if v[name] is None and rng.random() < 0.5:
                v.pop(name)
        return v

    def gen_steps(self, funcs, roots, groups, U):
        rng = self.rng
        steps = []
        n = self.ri('n_steps')
        versions = {}
        O_all = sorted(set(o for g in groups for o in g['O']))
        root = 0
        for i in range(n):
            r = rng.random()
            if i > 0 and r < self.p['p_mutate_step']:
                muts = []
                for _ in range(self.ri('n_muts')):
                    muts.extend(self.gen_mutation(U, O_all))
                step = {'op': 'mutate', 'muts': muts}
                if self.chance('p_tick0'):
                    step['tick'] = 0
                steps.append(step)
            elif i > 0 and r < self.p['p_mutate_step'] + \
                    self.p['p_clean_step']:
                steps.append({'op': 'clean'})
                if rng.random() < 0.3:
                    steps[-1]['anon'] = True     # build_name=None
                if self.chance('p_double_clean'):
                    steps.append({'op': 'clean'})
            elif i > 0 and self.chance('p_chdir_step'):
                # (cw1, cw2/in: directories holding a foreign file "keep",
                # which no build ever removes - see the cwdname spelling)
                steps.append({'op': 'chdir', 'rel': rng.choice(
                    ['', 'cw1', 'cw2/in', 'cw1', 'cw2/in'] +
                    [a for u in U for a in ancestors(u)])})
            elif i > 0 and self.chance('p_refuse_step'):
                steps.append({'op': 'refuse',
                              'how': rng.choice(REFUSALS),
                              'arg': rng.randrange(1 << 16)})
            else:
                if len(roots) > 1 and self.chance('p_switch_root'):
                    root = rng.randrange(len(roots))
                versions = self.gen_versions(funcs, versions)
                step = {'op': 'build', 'root': root,
                        'versions': dict(versions)}
                if self.chance('p_tick0'):
                    step['tick'] = 0
                elif self.chance('p_tick_back'):
                    step['tick'] = -2
                if self.chance('p_plain_build') and not versions:
                    step['plain'] = True
                steps.append(step)
        if not any(s['op'] == 'build' for s in steps):
            steps.append({'op': 'build', 'root': 0, 'versions': {}})
        # always end with a build so that the last mutation is observed
        if steps[-1]['op'] != 'build':
            steps.append({'op': 'build', 'root': root,
                          'versions': dict(versions)})
        return steps

    def generate(self, profile):
        rng = self.rng
        U = self.gen_universe()
        self.cache_dir_mode = None
        cache_rel = rng.choice(self.p['cache_rels'])
        self.cur_cache_rel = cache_rel
        if self.chance('p_cache_in_output_dir'):
            deep = [u for u in U if '/' in u] or ['a/b']
            d = rng.choice(deep).split('/')[0]
            mid = rng.choice(['', 'm/', 'm/n/'])
            cache_rel = '%s/%scache.gz' % (d, mid)
            anc = {'', d}
            if mid:
                anc.add(d + '/m')
            if mid == 'm/n/':
                anc.add(d + '/m/n')
            self.cache_dir_mode = anc
            self.cur_cache_rel = cache_rel
            self.p = dict(self.p, w_probe=0, p_anc_target=0.0)
        funcs, roots, groups = self.gen_program(U)
        U = self.U_final
        sc = {
            'profile': profile, 'seed': self.seed,
            'config': {
                'cache_rel': cache_rel,
                'build_name': 'B',
                'listdir_seed': rng.randrange(1 << 30),
                'cache_spelling': rng.choice(
                    [None, None, None, 'bytes', 'pathlike', 'redundant']),
            },
            'universe': U,
            'groups': groups,
            'init': self.gen_init(U) + (
                [['write', 'cw1/keep', 'k'], ['write', 'cw2/in/keep', 'k']]
                if self.p['p_chdir_step'] > 0 else []),
            'funcs': funcs,
            'roots': roots,
            'steps': self.gen_steps(funcs, roots, groups, U),
        }
        fams = getattr(self, 'families', [])
        ffams = getattr(self, 'forced_families', [])
        if fams and (ffams or rng.random() < 0.65):
            # the common directory of a chain family exists before the first
            # build (it holds a foreign file) and is removed, with everything
            # in it, before a later build
            fam = rng.choice(ffams or fams)
            sc['init'].append(['write', fam + '/ff', 'foreign-in-family'])
            builds = [i for i, st in enumerate(sc['steps'])
                      if st['op'] == 'build']
            if len(builds) >= 2 and (ffams or rng.random() < 0.7):
                at = rng.choice(builds[1:])
                sc['steps'].insert(at, {'op': 'mutate',
                                        'muts': [['rm', fam]]})
        return sc


PROFILES = {
    'C01': {},
}


def gen_stragglers(seed, params=None):
    """C17: threads that keep calling builder methods while / after the
    function the builder was passed to returns."""
    rng = random.Random(seed)
    p_line = (params or {}).get('p_line', 0.0)
    funcs = {
        'Fz': {'kind': 'file', 'name': 'nFz', 'variants': [
            [['w', 'once']]]},
        'SZ': {'kind': 'sub', 'name': 'nSZ', 'variants': [
            [['q', 'read_text', 'z1', 'HASH']]]},
    }
    init = [['write', 'z0', 'zin0'], ['write', 'z1', 'zin1'],
            ['write', 'zz/f', 'zin2'], ['write', 'x0', 'in0']]
    counter = [0]

    def sbody():
        body = []
        for _ in range(rng.randint(1, 3)):
            r = rng.random()
            counter[0] += 1
            if r < 0.6:
                kind = rng.choice(['exists', 'read_text', 'declare_read',
                                   'list_dir', 'is_file', 'get_size',
                                   'walk', 'read_binary', 'is_dir'])
                # (also paths that do not exist: operations that end in an
                # OSError are observations like any other)
                rel = rng.choice(['zz', 'zz', 'zmd']) \
                    if kind in ('list_dir', 'walk', 'is_dir') else \
                    rng.choice(['z0', 'z1', 'z0', 'z1', 'zm', 'zz/g'])
                body.append(['q', kind, rel, rng.choice(['METADATA',
                                                         'HASH'])])
                if rng.random() < 0.3:
                    # the same operation again (and again)
                    for _ in range(rng.randint(1, 2)):
                        body.append(list(body[-1]))
            elif r < 0.8:
                body.append(['sb', 'SZ', [counter[0]], {}])
            else:
                body.append(['bf', 'zo%d' % counter[0], 'Fz', [], {},
                             'METADATA'])
        return body

    def tail():
        return [['q', rng.choice(['exists', 'is_file', 'read_text']), 'x0',
                 'METADATA'] for _ in range(rng.randint(0, 3))]

    root = []
    n_owner = rng.randint(1, 2)
    for k in range(n_owner):
        r = rng.random()
        body = tail() + [['straggle', sbody(), 't%d' % k]] + tail()
        if r < 0.45:
            fid = 'SO%d' % k
            funcs[fid] = {'kind': 'sub', 'name': 'n' + fid,
                          'variants': [body]}
            root.append(['sb', fid, [], {}, True])
        elif r < 0.8:
            fid = 'FO%d' % k
            pos = rng.randint(0, len(body))
            r2 = rng.random()
            if r2 < 0.65:
                body.insert(pos, ['w', 'once'])
            elif r2 < 0.8:
                body.insert(pos, ['w', 'unlink'])
            # else: the function never creates its file
            r3 = rng.random()
            if r3 < 0.2:
                body.append(['raise', 'UserError'])
            elif r3 < 0.3:
                body.append(['ret', 'nonjson'])
            funcs[fid] = {'kind': 'file', 'name': 'n' + fid,
                          'variants': [body]}
            root.append(['bf', 'o%d' % k, fid, [], {}, 'METADATA', True])
        else:
            root.extend(body)
    root.extend(tail())
    if rng.random() < 0.25:
        # the root function raises while a straggler still uses its builder
        root.append(['raise', 'UserError'])
    steps = []
    for b in range(rng.randint(2, 3)):
        st = {'op': 'build', 'root': 0, 'versions': {}, 'tags': ['C17']}
        if rng.random() < 0.85:
            st['sched'] = gen_sched(rng, 2, p_line)
            if st['sched']['policy'] == 'sweep':
                st['sched']['thread'] = rng.choice([0, 0, 1, 2])
                st['sched']['at'] = rng.randint(0, 120)
        steps.append(st)
        if rng.random() < 0.75:
            steps.append({'op': 'mutate', 'muts': [
                ['write', rng.choice(['z0', 'z1', 'zz/f', 'zz/g', 'zm',
                                      'zmd/f', 'zm', 'zz/g']),
                 'zchg%d' % b]]})
    if steps[-1]['op'] != 'build':
        steps.append({'op': 'build', 'root': 0, 'versions': {},
                      'tags': ['C17']})
    return {
        'profile': 'stragglers', 'seed': seed,
        'config': {'cache_rel': '../cache.gz', 'build_name': 'B',
                   'listdir_seed': rng.randrange(1 << 30)},
        'init': init, 'funcs': funcs, 'roots': [root], 'steps': steps,
    }


def gen_wide(seed, params=None):
    """Builds with many outputs (> 128 files moved aside in one build):
    configuration-dependent code such as the fan-out of the backup
    directory is only reached by wide builds."""
    rng = random.Random(seed)
    n = rng.choice([130, 140, 200, 260])
    funcs = {'FW': {'kind': 'file', 'name': 'nFW', 'variants': [
        [['q', 'read_text', 'x0', 'HASH'], ['w', 'once']],
        [['w', 'once']]]}}
    prefix = rng.choice(['o', 'd/o', 'd/e/o'])
    foreign = rng.random() < 0.5
    init = [['write', 'x0', 'in0']]
    if foreign:
        for k in range(n):
            init.append(['write', '%s%03d' % (prefix, k), 'foreign%d' % k])
    root = [['bfmany', prefix, n, 'FW', rng.choice(['METADATA', 'HASH'])]]
    tail = rng.choice([[], [['raise', 'UserError']]])
    steps = []
    if foreign:
        # the first build overwrites n foreign files and fails
        steps.append({'op': 'build', 'root': 1, 'versions': {}})
        steps.append({'op': 'build', 'root': 0, 'versions': {}})
    else:
        steps.append({'op': 'build', 'root': 0, 'versions': {}})
        steps.append({'op': 'mutate', 'muts': [['write', 'x0', 'in1']]})
        # everything is rebuilt (n backups), then the build fails
        steps.append({'op': 'build', 'root': 1, 'versions': {}})
        steps.append({'op': 'build', 'root': 0, 'versions': {}})
    if rng.random() < 0.5:
        steps.append({'op': 'clean'})
    del tail
    return {
        'profile': 'wide', 'seed': seed,
        'config': {'cache_rel': '../cache.gz', 'build_name': 'B',
                   'listdir_seed': rng.randrange(1 << 30)},
        'init': init, 'funcs': funcs,
        'roots': [root, root + [['raise', 'UserError']]], 'steps': steps,
    }


def generate(profile, seed, params=None):
    if profile == 'wide':
        return gen_wide(seed, params)
    if profile == 'threads':
        return gen_threads(seed, params)
    if profile == 'stragglers':
        return gen_stragglers(seed, params)
    if profile == 'race':
        return gen_race(seed, params)
    if profile == 'dep':
        return gen_dep(seed, params)
    p = dict(PROFILES.get(profile, {}))
    if params:
        p.update(params)
    return Gen(seed, p).generate(profile)


# ----------------------------------------------------------------------
# threads: independent operations issued from 2-3 threads on one builder
def gen_sched(rng, n_threads=2, p_line=0.0):
    if rng.random() < p_line:
        # line-level preemption inside the package (windows that contain
        # neither a lock operation nor a file-system call)
        return {'policy': 'random', 'seed': rng.randrange(1 << 30),
                'p': rng.choice([0.01, 0.03, 0.08]), 'line': True}
    r = rng.random()
    if r < 0.45:
        return {'policy': 'random', 'seed': rng.randrange(1 << 30),
                'p': rng.choice([0.05, 0.15, 0.3, 0.6])}
    if r < 0.6:
        return {'policy': 'pct', 'seed': rng.randrange(1 << 30),
                'd': rng.randint(1, 3), 'steps': rng.choice([60, 150, 300])}
    return {'policy': 'sweep', 'thread': rng.randint(1, n_threads),
            'at': rng.randint(0, 70)}


def gen_race(seed, params=None):
    """Scenario for C08: a key performed directly by one thread while another
    thread reuses (or re-executes) a cached subtree that contains it.

    Build 1 is sequential and records P -> X (optionally Q -> P -> X).  The
    racing build runs ``P`` (or ``Q``) and ``X`` in different threads; the
    sequential builds in between are compared with from-scratch runs."""
    P = dict(p_line=0.0, p_deep=0.35, p_file=0.5, p_mutate=0.5,
             p_extra=0.5, p_two_races=0.5)
    if params:
        P.update(params)
    rng = random.Random(seed)
    is_file = rng.random() < P['p_file']
    xargs = rng.choice([[1], [], [[1, 2]]])
    if is_file:
        funcs = {'X': {'kind': 'file', 'name': 'nX', 'variants': [
            [['q', 'read_text', 'x0', 'METADATA'], ['w', 'once']]]}}
        callx = ['bf', 'outx', 'X', xargs, {}, rng.choice(
            ['METADATA', 'HASH']), True]
    else:
        funcs = {'X': {'kind': 'sub', 'name': 'nX', 'variants': [
            [['q', 'read_text', 'x0', 'METADATA']]]}}
        callx = ['sb', 'X', xargs, {}, True]
    tail = [['q', rng.choice(['is_file', 'read_text', 'exists', 'get_size']),
             'x1', 'METADATA'] for _ in range(rng.randint(1, 3))]
    head = [['q', 'is_file', 'x1']] if rng.random() < 0.4 else []
    follow = []
    if rng.random() < 0.5:
        # P has another child, which the P-thread calls again after P
        # returned or was refused
        funcs['Q'+'c'] = {'kind': 'sub', 'name': 'nQc', 'variants': [
            [['q', 'read_text', 'x2', 'METADATA']]]}
        head = head + [['sb', 'Qc', [], {}, True]]
        follow = [['sb', 'Qc', [], {}, True]]
    funcs['P'] = {'kind': 'sub', 'name': 'nP',
                  'variants': [head + [list(callx)] + tail]}
    top = ['sb', 'P', [], {}, True]
    if rng.random() < P['p_deep']:
        funcs['Q'] = {'kind': 'sub', 'name': 'nQ', 'variants': [
            [list(top), ['q', 'read_text', 'x2', 'HASH']]]}
        top = ['sb', 'Q', [], {}, True]
    funcs['Fok'] = {'kind': 'file', 'name': 'nFok', 'variants': [
        [['q', 'read_text', 'x2', 'METADATA'], ['w', 'once']]]}
    direct = list(callx)
    if is_file and rng.random() < 0.35:
        # the same output path with other arguments: still the same key,
        # but the direct call cannot be served from the record
        direct[3] = [2, 'other']
    bodies = [[list(top)] + follow, [direct]]
    if rng.random() < P['p_extra']:
        bodies.append([['bf', 'other', 'Fok', [], {}, 'METADATA', True],
                       ['q', 'is_file', 'x0']])
    if rng.random() < 0.3:
        # the direct call sits inside another cached subbuild
        funcs['R'] = {'kind': 'sub', 'name': 'nR', 'variants': [
            [['q', 'exists', 'x2'], list(callx)]]}
        bodies[1] = [['sb', 'R', [], {}, True]]
    rng.shuffle(bodies)
    nt = len(bodies)
    roots = [[list(top)], [['spawn', bodies]],
             [['spawn', bodies], ['raise', 'UserError']]]
    steps = [{'op': 'freebuild', 'root': 0, 'versions': {}}]

    def maybe_mutate():
        if rng.random() < P['p_mutate']:
            steps.append({'op': 'mutate', 'muts': [
                ['write', rng.choice(['x0', 'x1', 'x2']),
                 'changed%d' % len(steps)]]})
    maybe_mutate()
    if rng.random() < P.get('p_rollback', 0.35):
        # the racing build fails after the threads were joined: rollback
        steps.append({'op': 'freebuild', 'root': 2, 'versions': {},
                      'expect_fail': True,
                      'sched': gen_sched(rng, nt, P['p_line'])})
    else:
        steps.append({'op': 'freebuild', 'root': 1, 'versions': {},
                      'sched': gen_sched(rng, nt, P['p_line'])})
    steps.append({'op': 'freebuild', 'root': rng.choice([0, 1]),
                  'versions': {}})
    if rng.random() < P['p_two_races']:
        maybe_mutate()
        steps.append({'op': 'freebuild', 'root': 1, 'versions': {},
                      'sched': gen_sched(rng, nt, P['p_line'])})
        steps.append({'op': 'freebuild', 'root': 0, 'versions': {}})
    steps.append({'op': 'freeclean'})
    return {
        'profile': 'race', 'seed': seed,
        'config': {'cache_rel': '../cache.gz', 'build_name': 'B',
                   'listdir_seed': rng.randrange(1 << 30)},
        'init': [['write', 'x0', 'in0'], ['write', 'x1', 'in1'],
                 ['write', 'x2', 'in2']],
        'funcs': funcs, 'roots': roots, 'steps': steps, 'n_threads': nt,
    }


def gen_dep(seed, params=None):
    """Threads of one build whose operations depend on each other and are
    ordered by user-level synchronisation: one thread builds a file and
    signals, another waits for the signal and reads that file (C09: the
    record must replay in an order in which it is valid - an unchanged
    rebuild re-executes nothing)."""
    P = dict(p_line=0.0)
    if params:
        P.update(params)
    rng = random.Random(seed)
    funcs = {
        'FB': {'kind': 'file', 'name': 'nFB', 'variants': [
            [['q', 'read_text', 'x0', 'METADATA'], ['w', 'once']]]},
        'FC': {'kind': 'file', 'name': 'nFC', 'variants': [
            [['w', 'once']]]},
    }
    outb = rng.choice(['outb', 'd/outb', 'd/e/outb'])
    reader = [['await', 's1'],
              ['q', rng.choice(['read_text', 'is_file', 'get_size',
                                'declare_read']), outb, rng.choice(
                  ['HASH', 'METADATA'])]]
    if '/' in outb and rng.random() < 0.6:
        # (a directory in which no other thread is working at that time:
        # the operations of different threads stay independent unless
        # ordered by the event)
        reader.append(['q', 'list_dir', outb.rsplit('/', 1)[0]])
    if rng.random() < 0.6:
        funcs['A'] = {'kind': 'sub', 'name': 'nA', 'variants': [reader]}
        t_reader = [['q', 'is_file', 'x1'], ['sb', 'A', [], {}, True]]
        direct = False
    else:
        t_reader = reader
        direct = True
    t_writer = [['bf', outb, 'FB', [], {}, rng.choice(['METADATA', 'HASH']),
                 True], ['signal', 's1']]
    if rng.random() < 0.4:
        t_writer.insert(0, ['q', 'exists', 'x1'])
    bodies = [t_reader, t_writer]
    if rng.random() < 0.5:
        bodies.append([['bf', rng.choice(['g/oc', 'g/h/oc']), 'FC', [], {},
                        'METADATA', True]])
    if rng.random() < 0.5:
        bodies.reverse()
    nt = len(bodies)
    spawn = ['spawn', bodies]
    if rng.random() < 0.6:
        funcs['P'] = {'kind': 'sub', 'name': 'nP', 'variants': [
            [spawn, ['q', 'is_file', 'x1']]]}
        root = [['sb', 'P', [], {}, True]]
        # P's record replays its children in the recorded order
        noexec = True
    else:
        # (the root function always runs again and issues the calls in its
        # own, sequential order: the reader's record is then checked before
        # the writer's output is applied - a justified re-execution)
        root = [spawn]
        noexec = False
    steps = [{'op': 'freebuild', 'root': 0, 'versions': {}, 'nodiff': True,
              'sched': gen_sched(rng, nt, P['p_line'])},
             {'op': 'freebuild', 'root': 0, 'versions': {}, 'nodiff': True,
              'noexec': noexec}]
    if rng.random() < 0.6:
        steps.append({'op': 'mutate', 'muts': [
            ['write', rng.choice(['x0', 'x1']), 'changed']]})
        steps.append({'op': 'freebuild', 'root': 0, 'versions': {},
                      'nodiff': True,
                      'sched': gen_sched(rng, nt, P['p_line'])})
        # When the reader is a subbuild with a record, the library checks
        # that record at call time - before the function's own ``await`` -
        # so its validity depends on how far the writer has got: the two
        # operations are then not ordered by the program, and which record
        # order results is not specified.  Only asserted for direct readers.
        steps.append({'op': 'freebuild', 'root': 0, 'versions': {},
                      'nodiff': True, 'noexec': noexec and direct})
    steps.append({'op': 'freeclean'})
    return {
        'profile': 'dep', 'seed': seed,
        'config': {'cache_rel': '../cache.gz', 'build_name': 'B',
                   'listdir_seed': rng.randrange(1 << 30)},
        'init': [['write', 'x0', 'in0'], ['write', 'x1', 'in1']],
        'funcs': funcs, 'roots': [root], 'steps': steps, 'n_threads': nt,
    }


def gen_threads(seed, params=None):
    """Scenario for C09 / C08-threads: operations that do not depend on each
    other, issued concurrently; history = builds (threaded), mutations of
    static inputs, unchanged rebuild, clean."""
    P = dict(p_same_key=0.0, p_fail=0.25, p_in_sub=0.3, p_crash_last=0.0,
             p_tamper=0.3, p_seq_first=0.25, n_threads=(2, 4), p_in_file=0.2,
             p_line=0.0)
    if params:
        P.update(params)
    rng = random.Random(seed)
    nt = rng.randint(*P['n_threads'])
    dirs = rng.sample(['d', 'd/e', 'g', 'd/e/h', ''], rng.randint(1, 3))
    if rng.random() < P.get('p_one_dir', 0.0):
        # every thread works in one new directory chain (the windows between
        # creating a directory and registering it overlap more often)
        dirs = [rng.choice(['d', 'd/e', 'd/e/h'])]
    funcs = {
        'Fok': {'kind': 'file', 'name': 'nFok', 'variants': [
            [['q', 'read_text', 'x0', 'METADATA'], ['w', 'once']]]},
        'Fok2': {'kind': 'file', 'name': 'nFok2', 'variants': [
            [['w', 'twice'], ['q', 'declare_read', 'x1', 'HASH']]]},
        'Fbad': {'kind': 'file', 'name': 'nFbad', 'variants': [
            [['w', 'once'], ['raise', 'UserError']]]},
        'Fnone': {'kind': 'file', 'name': 'nFnone', 'variants': [[]]},
    }
    init = [['write', 'x0', 'in0'], ['write', 'x1', 'in1']]
    if rng.random() < 0.4:
        init.append(['mkdir', rng.choice(['d', 'g', 'd/e'])])
    inputs = ['x0', 'x1']
    if rng.random() < 0.3:
        # a foreign input file inside a directory chain in which threads
        # build (and fail to build) outputs
        fx = rng.choice(['d/fx', 'd/e/fx', 'g/fx'])
        init.append(['write', fx, 'foreign-input'])
        inputs = ['x0', 'x1', fx, fx]
    bodies = []
    outputs = []
    nested_outs = []
    for i in range(nt):
        body = []
        for j in range(rng.randint(1, 3)):
            r = rng.random()
            d = rng.choice(dirs)
            rel = (d + '/' if d else '') + 't%d%s' % (i, 'abc'[j])
            if r < 0.65:
                bad = rng.random() < P['p_fail']
                fid = rng.choice(['Fbad', 'Fnone']) if bad else \
                    rng.choice(['Fok', 'Fok2'])
                body.append(['bf', rel, fid, [i], {}, rng.choice(
                    ['METADATA', 'HASH']), True])
                if not bad:
                    outputs.append(rel)
                    if rng.random() < 0.5:
                        body.append(['q', rng.choice(
                            ['is_file', 'read_text', 'get_size', 'exists']),
                            rel, 'METADATA'])
            elif r < 0.85:
                sid = 'S%d%d' % (i, j)
                inner = [['q', 'read_binary', 'x1', 'HASH']]
                if rng.random() < 0.6:
                    nrel = (d + '/' if d else '') + 's%d%s' % (i, 'abc'[j])
                    inner.append(['bf', nrel, 'Fok', [i, j], {}, 'METADATA',
                                  True])
                    outputs.append(nrel)
                    nested_outs.append((i, nrel))
                funcs[sid] = {'kind': 'sub', 'name': 'n' + sid,
                              'variants': [inner]}
                body.append(['sb', sid, [i], {}, True])
            else:
                body.append(['q', rng.choice(['read_text', 'is_file',
                                              'get_size']),
                             rng.choice(inputs), 'METADATA'])
        bodies.append(body)
    # another thread asks about a target whose function fails: a failed
    # output is never visible, whatever the interleaving (provided nothing
    # foreign sits at that path before the build)
    peeked = set()
    for i, body in enumerate(list(bodies)):
        for st in list(body):
            if st[0] == 'bf' and st[2] in ('Fbad', 'Fnone') and nt > 1 and \
                    rng.random() < P.get('p_peek', 0.5):
                j = rng.choice([k for k in range(nt) if k != i])
                q = ['q', rng.choice(['is_file', 'exists', 'read_text',
                                      'get_size', 'declare_read']), st[1],
                     'METADATA']
                bodies[j].insert(rng.randint(0, len(bodies[j])), q)
                peeked.add(st[1])
    if nt > 1 and rng.random() < P.get('p_peek', 0.5) * 0.6:
        # a directory that exists before the build and in which only a
        # failing target is built: its listing is empty at any moment
        init.append(['mkdir', 'pk'])
        peeked.add('pk/bad')
        i, j = rng.sample(range(nt), 2)
        bodies[i].insert(rng.randint(0, len(bodies[i])), [
            'bf', 'pk/bad', rng.choice(['Fbad', 'Fnone']), [i], {},
            rng.choice(['METADATA', 'HASH']), True])
        for _ in range(rng.randint(1, 2)):
            bodies[j].insert(rng.randint(0, len(bodies[j])), [
                'q', rng.choice(['list_dir', 'walk', 'walk_bu', 'is_dir']),
                'pk', 'METADATA'])
    if P.get('p_foreign', 0.0) and rng.random() < P['p_foreign']:
        # foreign files at the targets: every thread moves one aside
        for body in bodies:
            for st in body:
                if st[0] == 'bf' and st[1] not in peeked and \
                        rng.random() < 0.7:
                    init.append(['write', st[1], 'foreign-' + st[1]])
    spelled = False
    spawn = ['spawn', bodies]
    if rng.random() < P['p_same_key']:
        # C08: the same key from two threads (identical bodies)
        d = rng.choice(dirs)
        rel = (d + '/' if d else '') + 'same'
        if rng.random() < 0.6:
            b = [['bf', rel, rng.choice(['Fok', 'Fok2', 'Fbad']), [], {},
                  rng.choice(['METADATA', 'HASH', 'HASH']), True]]
            outputs.append(rel)
        else:
            funcs['Ssame'] = {'kind': 'sub', 'name': 'nSsame', 'variants': [
                [['q', 'read_text', 'x0', 'METADATA']]]}
            b = [['sb', 'Ssame', [1], {}, True]]
        variants = [[list(st) for st in b] for _ in range(nt)]
        spelled = rng.random() < P.get('p_spell', 0.0)
        if spelled:
            # C07: the racing calls spell the same key differently
            if b[0][0] == 'bf':
                for v in variants:
                    sp = rng.choice([None, 'bytes', 'pathlike', 'redundant',
                                     'dotdot'])
                    if sp:
                        v[0] = v[0][:7] + [sp]
            else:
                fam = rng.choice([c[0] for c in CONFUSABLE if len(c[0]) > 1])
                for v in variants:
                    v[0][2] = [rng.choice(fam)]
        spawn = ['spawn', variants, 'sym']
    post = [['probe', sorted(set(
        [''] + outputs + [a for o in outputs for a in ancestors(o)]))]]
    r = rng.random()
    if r >= P['p_in_sub'] + P['p_in_file'] and spawn[1] is bodies and nt > 1:
        # root-level threads (nothing of the root is ever served from a
        # record): a thread looks at directories in which other threads build
        # failing targets.  The answers depend on the schedule and are not
        # compared; what the view says after the threads were joined is.
        for i, body in enumerate(list(bodies)):
            for st in list(body):
                if st[0] == 'bf' and st[2] in ('Fbad', 'Fnone') and \
                        '/' in st[1] and rng.random() < 0.6:
                    j = rng.choice([k for k in range(nt) if k != i])
                    d = st[1].rsplit('/', 1)[0]
                    for _ in range(rng.randint(1, 3)):
                        bodies[j].insert(
                            rng.randint(0, len(bodies[j])),
                            ['qx', rng.choice(['is_dir', 'exists', 'list_dir',
                                               'walk']),
                             rng.choice([d] + ancestors(d))])
    if r >= P['p_in_sub'] + P['p_in_file'] and spawn[1] is bodies and nt > 1:
        # ... and at files that another thread's subbuild builds (or reuses
        # from the cache): visible or not, depending on the schedule
        for i, nrel in nested_outs:
            if rng.random() < 0.6:
                j = rng.choice([k for k in range(nt) if k != i])
                for _ in range(rng.randint(1, 2)):
                    bodies[j].insert(
                        rng.randint(0, len(bodies[j])),
                        ['qx', rng.choice(['is_file', 'exists', 'get_size',
                                           'is_file']), nrel])
    if r < P['p_in_sub']:
        funcs['ST'] = {'kind': 'sub', 'name': 'nST', 'variants': [[spawn]]}
        root = [['sb', 'ST', [], {}, True]] + post
    elif r < P['p_in_sub'] + P['p_in_file']:
        # the threads use the builder of a build_file function
        funcs['FT'] = {'kind': 'file', 'name': 'nFT', 'variants': [
            [spawn, ['w', 'once']]]}
        root = [['bf', 'top', 'FT', [], {}, 'METADATA', True]] + post
    else:
        root = [spawn] + post
    if rng.random() < P.get('p_root_raise', 0.0):
        # the root function fails after the threads were joined: every build
        # is rolled back (and starts from the same tree again)
        root = root + [['raise', 'UserError']]
    roots = [root]
    steps = []
    b1 = {'op': 'build', 'root': 0, 'versions': {}}
    if rng.random() >= P['p_seq_first']:
        b1['sched'] = gen_sched(rng, nt, P['p_line'])
    steps.append(b1)
    r = rng.random()
    if r < 0.5:
        muts = []
        if rng.random() < 0.6:
            muts.append(['write', rng.choice(['x0', 'x1']), 'changed'])
        if outputs and rng.random() < P['p_tamper']:
            for o in rng.sample(outputs, min(len(outputs),
                                             rng.randint(1, 3))):
                muts.append(['write', o, 'tampered'])
        if muts:
            steps.append({'op': 'mutate', 'muts': muts})
    steps.append({'op': 'build', 'root': 0, 'versions': {},
                  'sched': gen_sched(rng, nt, P['p_line'])})
    if rng.random() < 0.5:
        steps.append({'op': 'build', 'root': 0, 'versions': {},
                      'sched': gen_sched(rng, nt, P['p_line'])})
    steps.append({'op': 'clean'})
    return {
        'profile': 'threads', 'seed': seed,
        'config': {'cache_rel': rng.choice(['../cache.gz', 'cache.gz',
                                            '../cd/cache.gz']),
                   'build_name': 'B', 'spelled_race': spelled,
                   'listdir_seed': rng.randrange(1 << 30)},
        'init': init, 'funcs': funcs, 'roots': roots, 'steps': steps,
        'n_threads': nt,
    }

