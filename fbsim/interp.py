"""Interpreter of generated build programs.

One interpreter drives either the real ``FileBuilder`` (through
``RealAdapter``) or the reference model (``ModelBuilder`` has the adapter's
interface natively).  Functions are *deterministic and data dependent*: what a
function writes and returns is a digest of everything it observed through the
builder, so a stale answer anywhere shows up in file contents and results.
"""
import os

from .util import canon, digest, jround, typed_repr


class UserError(Exception):
    pass


class CrashError(Exception):
    """Injected at a numbered raise opportunity; never caught by programs."""


EXC = {
    'UserError': UserError, 'ValueError': ValueError, 'KeyError': KeyError,
    'FileNotFoundError': FileNotFoundError, 'RuntimeError': RuntimeError,
    'TypeError': TypeError, 'OSError': OSError,
    'IsADirectoryError': IsADirectoryError,
}

READS = ('read_text', 'read_binary', 'declare_read')


class PathLike:
    def __init__(self, p):
        self.p = p

    def __fspath__(self):
        return self.p


def spell(path, how, sandbox):
    """Alternative spellings of one absolute path (C07)."""
    if how in (None, 'abs', 'plain'):
        return path
    if how == 'bytes':
        return os.fsencode(path)
    if how == 'pathlike':
        return PathLike(path)
    if how == 'rel':
        return os.path.relpath(path, os.getcwd())
    if how == 'cwdname':
        return os.path.basename(path)
    if how == 'redundant':
        d, b = os.path.split(path)
        return d + '//./' + b
    if how == 'dotdot':
        d, b = os.path.split(path)
        return os.path.join(d, b, '..', b)
    raise ValueError(how)


class RealAdapter:
    """Adapter giving the real FileBuilder the interface of ModelBuilder."""

    def __init__(self, interp, builder):
        self.it = interp
        self.b = builder

    def _cmp(self, cmp):
        FC = self.it.FileComparison
        return FC.HASH if cmp == 'HASH' else FC.METADATA

    def query(self, kind, path, cmp='METADATA', spelling=None):
        b = self.b
        sp = spell(path, spelling, self.it.sb)
        if kind == 'exists':
            return b.exists(sp)
        if kind == 'is_file':
            return b.is_file(sp)
        if kind == 'is_dir':
            return b.is_dir(sp)
        if kind == 'list_dir':
            r = b.list_dir(sp)
            self.it.last_raw = r
            return r
        if kind in ('walk', 'walk_bu'):
            r = b.walk(sp, kind == 'walk')
            self.it.last_raw = r
            self.it.check_walk_order(path, r, kind == 'walk')
            return r
        if kind == 'get_size':
            return b.get_size(sp)
        if kind == 'read_text':
            with b.read_text(sp, self._cmp(cmp)) as f:
                return f.read().encode('latin-1')
        if kind == 'read_binary':
            with b.read_binary(sp, self._cmp(cmp)) as f:
                return f.read()
        if kind == 'declare_read':
            b.declare_read(sp, self._cmp(cmp))
            with open(path, 'rb') as f:
                return f.read()
        raise ValueError(kind)

    def _count(self, key):
        cc = self.it.call_counts
        cc[key] = cc.get(key, 0) + 1
        from .seams import SIM
        self.it.call_mut_start[key] = SIM.n_mut

    def build_file(self, path, fname, func, args, kwargs, cmp='METADATA',
                   spelling=None, plain=False):
        from .model import file_key
        self._count(file_key(path))
        sp = spell(path, spelling, self.it.sb)
        if plain:
            return self.b.build_file(sp, fname, func, *args, **kwargs)
        return self.b.build_file_with_comparison(
            sp, self._cmp(cmp), fname, func, *args, **kwargs)

    def subbuild(self, fname, func, args, kwargs):
        from .model import sub_key
        from .util import jround
        try:
            self._count(sub_key(fname, jround(list(args)),
                                jround(dict(kwargs))))
        except (TypeError, ValueError):
            pass
        return self.b.subbuild(fname, func, *args, **kwargs)


class Frame:
    __slots__ = ('inv', 'fid', 'path', 'args', 'kwargs', 'obs', 'variant',
                 'retval', 'has_ret', 'B', 'last_call_args')

    def __init__(self, inv, fid, path, args, kwargs, variant, B):
        self.inv = inv
        self.fid = fid
        self.path = path
        self.args = args
        self.kwargs = kwargs
        self.variant = variant
        self.obs = []
        self.retval = None
        self.has_ret = False
        self.B = B
        self.last_call_args = None


def norm_answer(kind, ans, sb):
    """Order-insensitive, path-relative, JSON-able form of a query answer."""
    if kind == 'list_dir':
        return sorted(ans)
    if kind in ('walk', 'walk_bu'):
        return sorted([sb.rel(d), sorted(s), sorted(f)] for d, s, f in ans)
    if kind in READS:
        return ans.decode('latin-1')
    return ans


class Interp:
    def __init__(self, scenario, sandbox, mode, versions, model_build=None,
                 crash_at=None, file_comparison=None, sched=None):
        self.sc = scenario
        self.funcs = scenario['funcs']
        self.sb = sandbox
        self.mode = mode                  # 'real' | 'model'
        self.versions = jround(versions)
        self.mb = model_build
        self.crash_at = crash_at
        self.FileComparison = file_comparison
        self.sched = sched
        self.opp = 0                      # raise opportunities seen
        self.order = []                   # invocation ids in entry order
        self.done_order = []              # ... in completion order
        self.trace = {}                   # inv -> obs list
        self.entries = {}                 # inv -> (variant, typed args)
        self.viol = []                    # in-run violations (real mode)
        self.calls_log = []               # every build_file / subbuild call
        self.signals = {}
        self.raised = []                  # exception objects raised by user code
        self.written = {}                 # path -> last bytes written
        self.last_raw = None
        self.crashed = None
        self.stmt_hook = None
        self.builders = {}                # inv -> adapter (for 'late' calls)
        self.nstmts = 0
        self.invalid = None
        self.injected_calls = []
        self.call_counts = {}             # key -> number of calls so far
        self.call_mut_start = {}          # key -> mutating-call index at entry
        self.build_no = 0
        self.crash_end = False
        self.stragglers = {}         # owner/tag -> list of call records
        self.straggler_hints = {}    # owner/tag -> {stmt index: late?}
        self.ret_seq = {}            # inv -> scheduler seq when its API call
                                     # returned to the caller

    # ------------------------------------------------------------------
    def wrap(self, builder):
        if self.mode == 'model':
            return builder
        return RealAdapter(self, builder)

    def variant(self, spec):
        v = self.versions.get(spec['name'])
        n = len(spec['variants'])
        if n == 1:
            return 0
        return int(digest(repr(canon(v))), 16) % n

    def check_walk_order(self, top, result, top_down):
        seen = set()
        dirs = [d for d, _, _ in result]
        if len(set(dirs)) != len(dirs):
            self.viol.append(('C04', 'walk-duplicate-dir', self.sb.rel(top)))
            return
        pos = {d: i for i, d in enumerate(dirs)}
        for d in dirs:
            parent = os.path.dirname(d)
            if parent in pos:
                if top_down and pos[parent] > pos[d] or \
                        not top_down and pos[parent] < pos[d]:
                    self.viol.append(
                        ('C04', 'walk-order', self.sb.rel(top)))
                    return
        del seen

    # ------------------------------------------------------------------
    def crash_point(self):
        k = self.opp
        self.opp += 1
        if self.crash_at is not None and k == self.crash_at:
            e = CrashError('crash at opportunity %d' % k)
            self.crashed = e
            raise e

    def content(self, fr, tag=''):
        d = digest([fr.fid, fr.variant, fr.obs, tag])
        return '%s.%s%s' % (fr.fid, d, 'x' * (int(d[0], 16) % 3))

    # ------------------------------------------------------------------
    def make_func(self, fid):
        spec = self.funcs[fid]
        is_file = spec['kind'] == 'file'

        def fn(builder, *a, **kw):
            fn.entered.append(1)
            B = self.wrap(builder)
            if is_file:
                path = a[0]
                args = list(a[1:])
                inv = 'f:' + self.sb.rel(path)
            else:
                path = None
                args = list(a)
                inv = 's:%s:%s' % (spec['name'], digest(
                    repr((canon(args), canon(kw)))))
            variant = self.variant(spec)
            fr = Frame(inv, fid, path, args, kw, variant, B)
            # what a function returns and writes depends on its arguments
            # (as JSON values: 1 and 1.0, or differently ordered keys, are
            # the same argument - C07 - and a deterministic function in the
            # sense of the cache does not tell them apart)
            fr.obs.append(['args', digest(repr((canon(args), canon(kw))))])
            self.enter(fr)
            fn.invs.append(fr.inv)
            body = spec['variants'][variant]
            try:
                self.run_body(fr, body)
                self.crash_point()
            finally:
                self.done_order.append(fr.inv)
            if fr.has_ret:
                return fr.retval
            return 'r' + digest([fid, variant, fr.obs])
        fn.__name__ = 'fn_' + fid
        fn.entered = []
        fn.invs = []
        return fn

    def enter(self, fr):
        inv = fr.inv
        if inv in self.trace:
            # second execution of one key in one build
            self.viol.append(('C08', 'second-entry', inv))
            inv = inv + '#2'
            fr.inv = inv
        self.order.append(inv)
        self.trace[inv] = fr.obs
        self.entries[inv] = (fr.fid, fr.variant,
                             typed_repr([fr.args, fr.kwargs]))
        self.builders[inv] = fr.B
        if self.mode == 'real' and fr.path is not None:
            p = fr.path
            exp = os.path.abspath(p)
            if p != exp or not isinstance(p, str):
                self.viol.append(('C10', 'path-not-normalised', repr(p)))
            if os.path.lexists(p):
                self.viol.append(
                    ('C10', 'target-present-at-entry', self.sb.rel(p)))
            if not os.path.isdir(os.path.dirname(p)):
                self.viol.append(
                    ('C10', 'parent-missing-at-entry', self.sb.rel(p)))

    # ------------------------------------------------------------------
    def run_root(self, builder, body):
        B = self.wrap(builder)
        fr = Frame('root', 'root', None, [], {}, 0, B)
        self.order.append('root')
        self.trace['root'] = fr.obs
        self.builders['root'] = B
        ok = False
        try:
            self.run_body(fr, body)
            self.crash_point()
            if self.crash_end:
                e = CrashError('crash after the last statement of the root')
                self.crashed = e
                raise e
            ok = True
        finally:
            self.done_order.append('root')
            if self.mode == 'real':
                # phase of the build, independent of the library's private
                # method names: after the root function only the cache write
                # is still "before the commit"
                from . import seams
                if seams.SIM.phase == 'build':
                    seams.SIM.phase = 'cachewrite' if ok else 'rollback'
            # the fence of the root builder: the root function has returned
            # or raised (the library closes it before any further yield point)
            self.ret_seq['root'] = self.seq()
        if fr.has_ret:
            return fr.retval
        return fr.obs

    def run_body(self, fr, body):
        for st in body:
            if fr.has_ret:
                return
            self.crash_point()
            self.nstmts += 1
            if self.sched is not None and self.mode == 'real':
                self.sched.yield_point('stmt', st[0])
            if self.stmt_hook is not None:
                self.stmt_hook(self, fr, st)
            self.exec_stmt(fr, st)

    def exec_stmt(self, fr, st):
        op = st[0]
        sb = self.sb
        B = fr.B
        if op == 'q':
            kind, rel = st[1], st[2]
            cmp = resolve_step(st[3], self.build_no) if len(st) > 3 \
                else 'METADATA'
            spelling = st[4] if len(st) > 4 else None
            path = sb.p(rel)
            if rel == '@parent':
                # the directory the running build_file function works in
                path = os.path.dirname(fr.path) if fr.path else sb.w
            try:
                if self.mode == 'real':
                    ans = B.query(kind, path, cmp, spelling)
                else:
                    ans = B.query(kind, path, cmp)
            except OSError as e:
                fr.obs.append([kind, rel, '!' + type(e).__name__])
                return
            if kind == 'get_size' and self.mode == 'real' and \
                    os.path.isdir(path):
                # the size of a directory is file-system specific (and on
                # tmpfs changes with the number of entries): outside the
                # universe the properties quantify over
                self.invalid = 'get_size of a directory'
                ans = 'dirsize'
            fr.obs.append([kind, rel, norm_answer(kind, ans, sb)])
        elif op == 'bf':
            _, rel, fid, args, kwargs, cmp, catch = st[:7]
            args = unjson(resolve_step(args, self.build_no))
            kwargs = unjson(resolve_step(kwargs, self.build_no))
            cmp = resolve_step(cmp, self.build_no)
            spelling = st[7] if len(st) > 7 else None
            path = sb.p(rel)
            if spelling == 'cwdname':
                # a bare file name: it names another file after every chdir
                # (only in a working directory that no build can remove:
                # it holds a foreign file)
                try:
                    cwd = os.getcwd()
                except OSError:
                    cwd = ''
                if cwd.startswith(sb.w + os.sep) and os.path.isfile(
                        os.path.join(cwd, 'keep')):
                    path = os.path.join(cwd, os.path.basename(path))
                else:
                    spelling = None
            func = self.make_func(fid)
            fname = self.funcs[fid]['name']
            n_before = len(self.order)
            fr.last_call_args = (args, kwargs)
            try:
                if self.mode == 'real':
                    r = B.build_file(path, fname, func, args, kwargs, cmp,
                                     spelling, plain=spelling == 'plain')
                else:
                    r = B.build_file(path, fname, func, args, kwargs, cmp)
            except CrashError:
                raise
            except Exception as e:
                self.calls_log.append(
                    {'key': 'f:' + sb.rel(path), 'frame': fr.inv, 'ok': False,
                     'exc': type(e).__name__, 'entered': bool(func.entered)})
                self.note_returned(func)
                self.note_injected(e, 'f', path, None, None, None)
                self.after_bf(fr, path, False, e, bool(func.entered))
                if not catch or getattr(e, '_fbsim_fatal', False):
                    raise
                fr.obs.append(['bf', rel, '!' + type(e).__name__])
                return
            self.calls_log.append(
                {'key': 'f:' + sb.rel(path), 'frame': fr.inv, 'ok': True,
                 'exc': None, 'entered': bool(func.entered)})
            self.note_returned(func)
            self.last_raw = r
            self.after_bf(fr, path, True, None, bool(func.entered))
            fr.obs.append(['bf', rel, typed_repr(r)])
        elif op == 'sb':
            _, fid, args, kwargs, catch = st[:5]
            args = unjson(resolve_step(args, self.build_no))
            kwargs = unjson(resolve_step(kwargs, self.build_no))
            func = self.make_func(fid)
            fname = self.funcs[fid]['name']
            fr.last_call_args = (args, kwargs)
            try:
                r = B.subbuild(fname, func, args, kwargs)
            except CrashError:
                raise
            except Exception as e:
                self.calls_log.append(
                    {'key': sub_inv(fname, args, kwargs), 'frame': fr.inv,
                     'ok': False, 'exc': type(e).__name__,
                     'entered': bool(func.entered)})
                self.note_returned(func)
                self.note_injected(e, 's', None, fname, args, kwargs)
                if not catch or getattr(e, '_fbsim_fatal', False):
                    raise
                fr.obs.append(['sb', fid, '!' + type(e).__name__])
                return
            self.calls_log.append(
                {'key': sub_inv(fname, args, kwargs), 'frame': fr.inv,
                 'ok': True, 'exc': None, 'entered': bool(func.entered)})
            self.note_returned(func)
            self.last_raw = r
            fr.obs.append(['sb', fid, typed_repr(r)])
        elif op == 'w':
            mode = st[1]
            path = fr.path
            if path is None:
                return
            data = self.content(fr).encode()
            if mode == 'twice':
                self.write(path, b'intermediate')
                self.crash_point()
            self.write(path, data)
            if mode == 'unlink':
                self.unlink(path)
        elif op == 'if':
            _, pred, then, els = st
            if self.pred(fr, pred):
                self.run_body(fr, then)
            else:
                self.run_body(fr, els)
        elif op == 'raise':
            e = EXC[st[1]]('user failure in %s' % fr.inv)
            self.raised.append(e)
            raise e
        elif op == 'ret':
            mode = st[1]
            fr.has_ret = True
            if mode == 'obs':
                fr.retval = 'r' + digest([fr.fid, fr.variant, fr.obs])
            elif mode == 'val':
                fr.retval = st[2]
            elif mode == 'pyval':
                # python-only shapes: tuples, non-string keys (normalised by
                # the JSON round trip)
                fr.retval = unjson(st[2])
            elif mode == 'nonjson':
                fr.retval = {1, 2}
            elif mode == 'obslist':
                fr.retval = [st[2], fr.obs]
            else:
                raise ValueError(mode)
        elif op == 'mut':
            self.mutate(fr, st)
        elif op == 'late':
            self.late(fr, st)
        elif op == 'spawn':
            self.spawn(fr, st)
        elif op == 'straggle':
            self.straggle(fr, st)
        elif op == 'probe':
            self.probe(fr, st)
        elif op == 'bfmany':
            # many outputs from one statement (wide builds: > 128 backups)
            _, prefix, n, fid, cmp = st[:5]
            func_name = self.funcs[fid]['name']
            res = []
            for k in range(n):
                path = sb.p('%s%03d' % (prefix, k))
                func = self.make_func(fid)
                try:
                    if self.mode == 'real':
                        r = B.build_file(path, func_name, func, [k], {}, cmp,
                                         None)
                    else:
                        r = B.build_file(path, func_name, func, [k], {}, cmp)
                    res.append(digest(r, 4))
                except CrashError:
                    raise
                except Exception as e:
                    self.note_injected(e, 'f', path, None, None, None)
                    res.append('!' + type(e).__name__)
            fr.obs.append(['bfmany', prefix, digest(res)])
        elif op == 'qx':
            # a query whose answer depends on the schedule (it looks at what
            # another thread is working on): executed, answer not compared
            try:
                if self.mode == 'real':
                    B.query(st[1], sb.p(st[2]), 'METADATA', None)
            except OSError:
                pass
            fr.obs.append(['qx', st[1], st[2]])
        elif op == 'signal':
            # user-level synchronisation between threads of one build
            lk = self.signal_lock(st[1])
            if lk is not None:
                lk.release()
        elif op == 'await':
            lk = self.signal_lock(st[1])
            if lk is not None:
                lk.acquire()
                lk.release()
        elif op == 'nop':
            pass
        else:
            raise ValueError('unknown statement %r' % (st,))

    # ------------------------------------------------------------------
    def pred(self, fr, pred):
        if pred[0] == 'bit':
            return (int(digest(fr.obs), 16) >> pred[1]) & 1 == 1
        if pred[0] == 'lasterr':
            return bool(fr.obs) and isinstance(fr.obs[-1][-1], str) and \
                fr.obs[-1][-1].startswith('!')
        if pred[0] == 'lasttrue':
            return bool(fr.obs) and fr.obs[-1][-1] is True
        if pred[0] == 'const':
            return bool(pred[1])
        raise ValueError(pred)

    def write(self, path, data):
        if self.mode == 'real':
            self.sb.write_file(path, data)
            self.written[path] = data
        else:
            self.mb.write(path, data)

    def unlink(self, path):
        if self.mode == 'real':
            if os.path.isfile(path):
                os.remove(path)
            self.written.pop(path, None)
        else:
            self.mb.unlink(path)

    def note_injected(self, e, kind, path, fname, args, kwargs):
        """Remember the innermost API call at which an injected internal
        OSError surfaced (real mode)."""
        if self.mode != 'real':
            return
        x, n, inj = e, 0, False
        while x is not None and n < 10:
            if getattr(x, '_fbsim_injected', False):
                inj = True
                break
            x = x.__cause__ or x.__context__
            n += 1
        if not inj or getattr(x, '_fbsim_seen', False):
            return
        x._fbsim_seen = True
        from .model import file_key, sub_key
        from .util import jround
        if kind == 'f':
            key = file_key(path)
        else:
            key = sub_key(fname, jround(list(unjson(args))),
                          jround(dict(unjson(kwargs))))
        # (the n-th call with this key: a key may be called again after a
        # call that failed in setup)
        # files the call had already moved aside when the error struck
        from .seams import SIM
        start = self.call_mut_start.get(key, 0)
        fidx = (SIM.fault_fired or {}).get('index', -1)
        moved = [rel for (idx, rel) in SIM.moves if start <= idx < fidx]
        self.injected_calls.append((key, type(e),
                                    self.call_counts.get(key, 1), moved))

    def note_returned(self, func):
        for inv in func.invs:
            self.ret_seq[inv] = self.seq()

    def after_bf(self, fr, path, ok, exc, entered):
        """Physical post-conditions of build_file (C10), real mode only."""
        if self.mode != 'real':
            return
        rel = self.sb.rel(path)
        if ok:
            if not os.path.isfile(path) or os.path.islink(path):
                self.viol.append(('C10', 'output-missing-after-return', rel))
            elif path in self.written:
                with open(path, 'rb') as f:
                    data = f.read()
                if data != self.written[path]:
                    self.viol.append(
                        ('C10', 'output-bytes-differ-after-return', rel))
        else:
            if entered and os.path.lexists(path):
                self.viol.append(('C10', 'target-left-after-failure', rel))

    # ------------------------------------------------------------------
    # C04: a battery of queries over a set of paths, plus model-free
    # consistency of the answers among themselves
    def probe(self, fr, st):
        sb = self.sb
        rels = st[1]
        B = fr.B
        ans = {}
        out = []
        for rel in rels:
            path = sb.p(rel)
            for kind in ('exists', 'is_file', 'is_dir', 'list_dir', 'walk',
                         'declare_read'):
                try:
                    a = B.query(kind, path, 'METADATA')
                    a = norm_answer(kind, a, sb)
                except OSError as e:
                    a = '!' + type(e).__name__
                ans[(kind, rel)] = a
                out.append([kind, rel, a])
            if ans[('is_dir', rel)] is not True:
                # (the size of a directory is file-system specific)
                try:
                    a = B.query('get_size', path, 'METADATA')
                except OSError as e:
                    a = '!' + type(e).__name__
                out.append(['get_size', rel, a])
                if self.mode == 'real':
                    isf = ans[('is_file', rel)]
                    if isf and not isinstance(a, int) or \
                            not isf and a != '!FileNotFoundError':
                        self.viol.append(('C04', 'cons:get_size-vs-is_file',
                                          rel))
        fr.obs.append(['probe', out])
        if self.mode != 'real':
            return
        bad = None
        relset = set(rels)
        for rel in rels:
            ex, isf, isd = (ans[('exists', rel)], ans[('is_file', rel)],
                            ans[('is_dir', rel)])
            ld, wk, rd = (ans[('list_dir', rel)], ans[('walk', rel)],
                          ans[('declare_read', rel)])
            if ex != (isf or isd):
                bad = ('exists!=is_file|is_dir', rel)
            elif isf and isd:
                bad = ('file-and-dir', rel)
            elif isd != isinstance(ld, list):
                bad = ('list_dir-vs-is_dir', rel)
            elif isf and ld != '!NotADirectoryError':
                bad = ('list_dir-of-file', rel)
            elif not ex and ld != '!FileNotFoundError':
                bad = ('list_dir-of-missing', rel)
            elif isf != (not str(rd).startswith('!')):
                bad = ('read-vs-is_file', rel)
            elif isd and rd != '!IsADirectoryError':
                bad = ('read-of-dir', rel)
            elif not ex and rd != '!FileNotFoundError':
                bad = ('read-of-missing', rel)
            elif (wk != []) != isd:
                bad = ('walk-vs-is_dir', rel)
            if bad is None and ex and rel not in ('', '.'):
                parent = os.path.dirname(rel)
                if parent in relset and not ans[('is_dir', parent)]:
                    bad = ('parent-not-dir', rel)
            if bad is None and isd:
                names = set(ld)
                for other in rels:
                    if other and os.path.dirname(other) == rel:
                        n = os.path.basename(other)
                        if ans[('exists', other)] != (n in names):
                            bad = ('list_dir-vs-exists', other)
                top = [w for w in wk if w[0] == sb.rel(sb.p(rel))]
                if not top or sorted(top[0][1] + top[0][2]) != sorted(ld):
                    bad = ('walk-vs-list_dir', rel)
            if bad is not None:
                break
        if bad is not None:
            self.viol.append(('C04', 'cons:' + bad[0], bad[1]))

    # ------------------------------------------------------------------
    # C11: in-place mutation of values that crossed the API
    def mutate(self, fr, st):
        what = st[1]
        if what == 'last':
            v = self.last_raw
            _mutate_value(v)
        elif what == 'args':
            _mutate_value(fr.args)
            _mutate_value(fr.kwargs)
        elif what == 'versions':
            # the caller edits the dictionary it passed as ``versions`` to
            # build_versioned while the build is running
            vo = getattr(self, 'versions_obj', None)
            if vo is not None and self.mode == 'real':
                for v in list(vo.values()):
                    _mutate_value(v)
                for f in sorted(self.funcs):
                    vo[self.funcs[f]['name']] = 'MUT'
        elif what == 'callargs':
            # the caller edits the containers it passed to its last
            # build_file / subbuild call, after that call returned or raised
            la = getattr(fr, 'last_call_args', None)
            if la is not None:
                for v in la[0]:
                    _mutate_value(v)
                for k in sorted(la[1]):
                    _mutate_value(la[1][k])

    def late(self, fr, st):
        raise NotImplementedError

    # ------------------------------------------------------------------
    # C17: a thread that keeps using a builder while / after its owner returns
    def straggle(self, fr, st):
        body, tag = st[1], st[2]
        key = '%s/%s' % (fr.inv, tag)
        rec = self.stragglers.setdefault(key, [])
        owner = fr.inv
        B = fr.B

        def one(j, s):
            kind = s[0]
            ent = {'j': j, 'kind': kind, 'inv_seq': self.seq(),
                   'owner': owner, 'stmt': s}
            f = None
            try:
                if kind == 'q':
                    cmp = s[3] if len(s) > 3 else 'METADATA'
                    if self.mode == 'real':
                        a = B.query(s[1], self.sb.p(s[2]), cmp, None)
                    else:
                        a = B.query(s[1], self.sb.p(s[2]), cmp)
                    ent['out'] = ['ok', norm_answer(s[1], a, self.sb)]
                elif kind == 'sb':
                    f = self.make_func(s[1])
                    r = B.subbuild(self.funcs[s[1]]['name'], f, s[2], s[3])
                    ent['out'] = ['ok', typed_repr(r)]
                elif kind == 'bf':
                    f = self.make_func(s[2])
                    if self.mode == 'real':
                        r = B.build_file(self.sb.p(s[1]),
                                         self.funcs[s[2]]['name'], f, s[3],
                                         s[4], s[5], None)
                    else:
                        r = B.build_file(self.sb.p(s[1]),
                                         self.funcs[s[2]]['name'], f, s[3],
                                         s[4], s[5])
                    ent['out'] = ['ok', typed_repr(r)]
                    ent['entered'] = bool(f.entered)
            except Exception as e:
                ent['out'] = ['!' + type(e).__name__]
                if f is not None:
                    ent['entered'] = bool(f.entered)
            ent['ret_seq'] = self.seq()
            rec.append(ent)

        if self.mode == 'model':
            # the model follows the real run: a call that the real builder
            # refused as "already finished" is late (no effect at all), every
            # other call happened while the owner was alive
            late = self.straggler_hints.get(key, {})
            for j, s in enumerate(body):
                if late.get(j):
                    rec.append({'j': j, 'kind': s[0],
                                'out': ['!RuntimeError']})
                else:
                    one(j, s)
            return

        def run():
            for j, s in enumerate(body):
                if self.sched is not None:
                    self.sched.yield_point('stmt', 'straggler')
                one(j, s)

        if self.sched is not None:
            self.sched.spawn_detached(run)
        else:
            run()

    def seq(self):
        return self.sched.seq if self.sched is not None else 0

    def signal_lock(self, name):
        """An event: a simulated lock that starts out held by nobody's
        thread; ``signal`` releases it, ``await`` passes through it."""
        if self.sched is None or self.mode != 'real':
            return None
        lk = self.signals.get(name)
        if lk is None:
            lk = self.sched.make_lock()
            lk.owner = 'event'
            self.signals[name] = lk
        return lk

    def spawn(self, fr, st):
        """Run bodies 'concurrently' on the same builder.

        Without a scheduler (and in the model) the bodies run one after
        another, which is the sequential reference for independent work."""
        bodies = st[1]
        results = [None] * len(bodies)
        frames = []
        for i, body in enumerate(bodies):
            sub = Frame(fr.inv, fr.fid, fr.path, fr.args, fr.kwargs,
                        fr.variant, fr.B)
            frames.append(sub)

        def run(i):
            try:
                self.run_body(frames[i], bodies[i])
            except CrashError as e:
                results[i] = e
            except Exception as e:
                results[i] = e

        if self.sched is not None and self.mode == 'real':
            self.sched.run_threads([(lambda i=i: run(i))
                                    for i in range(len(bodies))])
        else:
            for i in range(len(bodies)):
                run(i)
        crash = None
        entries = []
        for i, sub in enumerate(frames):
            e = results[i]
            if isinstance(e, CrashError):
                crash = e
            entries.append([sub.obs,
                            None if e is None else '!' + type(e).__name__])
        if len(st) > 2 and st[2] == 'sym':
            # identical bodies racing for the same key: who wins is not
            # specified, the multiset of outcomes is
            entries.sort(key=lambda x: digest(x))
            fr.obs.append(['th-sym', entries])
        else:
            for i, en in enumerate(entries):
                fr.obs.append(['th', i] + en)
        if crash is not None:
            raise crash


def sub_inv(fname, args, kwargs):
    """Invocation id of a subbuild (the same as in make_func)."""
    try:
        return 's:%s:%s' % (fname, digest(
            repr((canon(list(args)), canon(dict(kwargs))))))
    except TypeError:
        return 's:%s:?' % fname


def _mutate_value(v, top=True):
    """Mutate every mutable container reachable from ``v`` in place."""
    if isinstance(v, list):
        for x in list(v):
            _mutate_value(x, False)
        v.append('MUT')
    elif isinstance(v, dict):
        for x in list(v.values()):
            _mutate_value(x, False)
        v['MUT'] = 1
    elif isinstance(v, tuple):
        for x in v:
            _mutate_value(x, False)


def resolve_step(v, n):
    """{"__step__": [v0, v1, ...]} -> the value for build number n."""
    if isinstance(v, dict):
        if '__step__' in v:
            alts = v['__step__']
            return resolve_step(alts[n % len(alts)], n)
        return {k: resolve_step(x, n) for k, x in v.items()}
    if isinstance(v, list):
        return [resolve_step(x, n) for x in v]
    return v


def unjson(v):
    """Decode the scenario encoding of python-only shapes.

    {"__tuple__": [...]} -> tuple, {"__dict__": [[k, v], ...]} -> dict with
    arbitrary (int/float/bool/None) keys."""
    if isinstance(v, dict):
        if '__tuple__' in v:
            return tuple(unjson(x) for x in v['__tuple__'])
        if '__dict__' in v:
            return {unjson(k): unjson(x) for k, x in v['__dict__']}
        if '__float__' in v:
            return float(v['__float__'])
        return {k: unjson(x) for k, x in v.items()}
    if isinstance(v, list):
        return [unjson(x) for x in v]
    return v
