"""Executable reference model of the documented FileBuilder semantics.

In-memory, single-threaded, no caching overlay, no locks, no disk access.

* ``Tree``        a path -> node map with directory index.
* ``PrevRecord``  what the previous *committed* build recorded (outputs,
                  created directories, versions, trace forest).
* ``ModelBuild``  one build: the virtual view V, claims, created-directory
                  marks, and the decision "serve from the record or execute"
                  (M2).  With an empty record it is the from-scratch model (M1).

The model raises real Python exception classes so that the same interpreter
(fbsim.interp) drives it and the real FileBuilder.
"""
import hashlib
import os

from .util import canon, jeq, jround


class Tree:
    """abs path -> ('d',) | ('f', bytes, mtime_ns)."""

    def __init__(self, nodes=None, root=None):
        self.nodes = {}
        self.kids = {}
        self.root = root
        if root is not None:
            self.nodes[root] = ('d',)
        if nodes:
            for p in sorted(nodes):
                n = nodes[p]
                self.nodes[p] = n if n[0] == 'd' else ('f', n[1], n[2])
                self.kids.setdefault(os.path.dirname(p), set()).add(
                    os.path.basename(p))

    def copy(self):
        t = Tree()
        t.root = self.root
        t.nodes = dict(self.nodes)
        t.kids = {k: set(v) for k, v in self.kids.items()}
        return t

    def get(self, p):
        return self.nodes.get(p)

    def is_file(self, p):
        n = self.nodes.get(p)
        return n is not None and n[0] == 'f'

    def is_dir(self, p):
        n = self.nodes.get(p)
        return n is not None and n[0] == 'd'

    def exists(self, p):
        return p in self.nodes

    def children(self, p):
        return sorted(self.kids.get(p, ()))

    def put(self, p, node):
        self.nodes[p] = node
        self.kids.setdefault(os.path.dirname(p), set()).add(
            os.path.basename(p))

    def remove(self, p):
        """Remove a node and everything below it."""
        if p not in self.nodes:
            return
        for name in list(self.kids.get(p, ())):
            self.remove(os.path.join(p, name))
        self.kids.pop(p, None)
        del self.nodes[p]
        d = os.path.dirname(p)
        s = self.kids.get(d)
        if s is not None:
            s.discard(os.path.basename(p))
            if not s:
                del self.kids[d]

    def has_children(self, p):
        return bool(self.kids.get(p))


class Rec:
    """One recorded cacheable call."""
    __slots__ = ('kind', 'key', 'fname', 'path', 'args', 'kwargs', 'cmp',
                 'status', 'ret', 'out', 'subs', 'exc')

    def __init__(self, kind, key, fname, path, args, kwargs, cmp):
        self.kind = kind
        self.key = key
        self.fname = fname
        self.path = path
        self.args = args
        self.kwargs = kwargs
        self.cmp = cmp
        self.status = None      # ok | raised | setup
        self.ret = None
        self.out = None         # (sha256 hex, size, mtime_ns) for ok outputs
        self.subs = []
        self.exc = None         # exception class name if raised/setup

    def walk(self):
        yield self
        for s in self.subs:
            if isinstance(s, Rec):
                for r in s.walk():
                    yield r


class PrevRecord:
    def __init__(self, build_name, versions, forest, outputs, created_dirs,
                 cache_path):
        self.build_name = build_name
        self.versions = versions
        self.forest = forest            # list of root Recs
        self.outputs = set(outputs)
        self.created_dirs = set(created_dirs)
        self.cache_path = cache_path
        self.index = {}
        for root in forest:
            for r in root.walk():
                if r.status != 'setup':
                    self.index[r.key] = r


def file_key(path):
    return ('f', path)


def sub_key(fname, args, kwargs):
    return ('s', fname, canon(args), canon(kwargs))


def out_sig(node):
    return (hashlib.sha256(node[1]).hexdigest(), len(node[1]), node[2])


def too_long(path):
    """A path with a component the kernel rejects (ENAMETOOLONG)."""
    return any(len(os.fsencode(c)) > 255 for c in path.split('/'))


class Invalid(BaseException):
    """The scenario left the universe the properties quantify over."""


class State:
    """The mutable part of a build that a replay has to fork."""

    def __init__(self, V, claims, created, inprog, disturbed=None):
        self.V = V
        self.claims = claims        # key -> 'ok' | 'raised' | 'inprog'
        self.created = created      # set of dirs created in this build
        self.inprog = inprog        # set of output paths in progress
        # previous outputs that this build physically moved aside to make a
        # directory at their position (or to make room for a file where a
        # stale directory was): they no longer match their record
        self.disturbed = disturbed if disturbed is not None else set()

    def fork(self):
        return State(self.V.copy(), dict(self.claims), set(self.created),
                     set(self.inprog), set(self.disturbed))


class ModelBuild:
    """One build over the tree ``T_pre`` with previous record ``prev``."""

    def __init__(self, T_pre, prev, cache_path, base, w, versions,
                 build_name, clock_now, serve=True, hints=None,
                 allow_ancestor_outputs=False):
        self.T_pre = T_pre
        self.prev = prev
        self.cache = cache_path
        self.base = base
        self.w = w
        self.versions = jround(versions)
        self.build_name = build_name
        self.now = clock_now
        self.serve = serve and prev is not None
        self.hints = hints or {}
        self.call_counts = {}
        self.allow_ancestor_outputs = allow_ancestor_outputs
        # --- M0: start state
        V = T_pre.copy()
        self.cache_dirs_created = []
        if prev is not None:
            for p in prev.outputs:
                if V.is_file(p):
                    V.remove(p)
        if V.is_file(self.cache):
            V.remove(self.cache)
        if prev is not None:
            changed = True
            dirs = sorted(prev.created_dirs, key=lambda d: -len(d))
            while changed:
                changed = False
                for d in dirs:
                    if V.is_dir(d) and not V.has_children(d):
                        V.remove(d)
                        changed = True
        self.st = State(V, {}, set(), set())
        # directories for the cache file are made first
        d = os.path.dirname(self.cache)
        missing = []
        while not V.exists(d):
            missing.append(d)
            d = os.path.dirname(d)
        if V.is_file(d):
            raise Invalid('cache dir below a file')
        for d in reversed(missing):
            V.put(d, ('d',))
            self.cache_dirs_created.append(d)
        self.cache_dirs = set(self.cache_dirs_created)
        # --- bookkeeping
        self.executed = []          # keys of calls whose function ran
        self.served = []            # keys served from the record
        self.causes = {}            # key -> why it had to run
        self.roots = []             # Recs directly under the root function
        self.stack = []             # current Rec chain
        self.finished = False
        self.pending = {}
        self.served_outputs = []    # output paths kept from the previous build
        self.probes = {}

    # ------------------------------------------------------------------
    # virtual view
    def _check_scope(self, p):
        if not (p == self.w or p.startswith(self.w + '/')):
            raise Invalid('query outside the work root: %s' % p)

    def q_is_file(self, st, p):
        return st.V.is_file(p)

    def q_is_dir(self, st, p):
        return st.V.is_dir(p)

    def query(self, st, kind, p, cmp='METADATA'):
        self._check_scope(p)
        V = st.V
        if too_long(p) and kind in ('read_text', 'read_binary',
                                    'declare_read'):
            # "some other type of OS error" - which one depends on whether
            # the parent directories physically exist: unspecified
            raise Invalid('read of a path with an over-long component')
        if kind == 'exists':
            return V.exists(p)
        if kind == 'is_file':
            return V.is_file(p)
        if kind == 'is_dir':
            return V.is_dir(p)
        if kind == 'list_dir':
            if V.is_dir(p):
                return V.children(p)
            if V.is_file(p):
                raise NotADirectoryError(p)
            raise FileNotFoundError(p)
        if kind in ('walk', 'walk_bu'):
            out = []
            if V.is_dir(p):
                self._walk(V, p, kind == 'walk', out)
            return out
        if kind == 'get_size':
            n = V.get(p)
            if n is None:
                raise FileNotFoundError(p)
            if n[0] == 'd':
                raise Invalid('get_size of a directory')
            return len(n[1])
        if kind in ('read_text', 'read_binary', 'declare_read'):
            n = V.get(p)
            if n is None:
                raise FileNotFoundError(p)
            if n[0] == 'd':
                raise IsADirectoryError(p)
            return n
        raise ValueError(kind)

    def _walk(self, V, d, top_down, out):
        subdirs = []
        files = []
        for name in V.children(d):
            if V.is_file(os.path.join(d, name)):
                files.append(name)
            else:
                subdirs.append(name)
        if top_down:
            out.append((d, subdirs, files))
        for s in subdirs:
            self._walk(V, os.path.join(d, s), top_down, out)
        if not top_down:
            out.append((d, subdirs, files))

    @staticmethod
    def answer_sig(kind, ans, cmp):
        """Canonical recorded form of a query answer (what a replay compares)."""
        if kind in ('read_text', 'read_binary', 'declare_read'):
            sig = out_sig(ans)
            if cmp == 'HASH':
                return ('H', sig[0])
            return ('M', sig[1], sig[2])
        if kind in ('walk', 'walk_bu'):
            return tuple((d, tuple(s), tuple(f)) for d, s, f in ans)
        if isinstance(ans, list):
            return tuple(ans)
        return ans

    def _try_query_sig(self, st, kind, p, cmp):
        try:
            return ('ok', self.answer_sig(kind, self.query(st, kind, p, cmp),
                                          cmp))
        except OSError as e:
            return ('exc', type(e).__name__)

    # ------------------------------------------------------------------
    def _version_same(self, fname):
        old = self.prev.versions.get(fname)
        new = self.versions.get(fname)
        return jeq(old, new)

    def _intact(self, rec, st=None):
        n = self.T_pre.get(rec.path)
        if n is None or n[0] != 'f':
            return False
        if rec.path in (st or self.st).disturbed:
            return False
        sig = out_sig(n)
        if rec.cmp == 'HASH':
            return sig[0] == rec.out[0]
        return sig[1] == rec.out[1] and sig[2] == rec.out[2]

    def _setup_file(self, st, path, physical=False):
        """Setup of build_file on state ``st``: raise or create parents.

        Returns the list of directories created."""
        if file_key(path) in st.claims:
            raise RuntimeError('same file twice')
        if path == self.cache:
            raise RuntimeError('cache file')
        if st.V.is_dir(path):
            raise IsADirectoryError(path)
        missing = []
        d = os.path.dirname(path)
        while not st.V.exists(d):
            if d == self.cache:
                raise NotADirectoryError(d)
            missing.append(d)
            nd = os.path.dirname(d)
            if nd == d:
                raise FileNotFoundError(d)
            d = nd
        if st.V.is_file(d):
            raise NotADirectoryError(d)
        if any(too_long(d) for d in missing):
            # creating the parent directories fails part-way: nothing stays
            import errno
            raise OSError(errno.ENAMETOOLONG, 'File name too long')
        if not self.allow_ancestor_outputs:
            for k, v in st.claims.items():
                # (a failed build_file left no output: not an output path)
                if k[0] == 'f' and v != 'raised':
                    q = k[1]
                    if q.startswith(path + '/') or path.startswith(q + '/'):
                        raise Invalid('output path is an ancestor of another')
        made = []
        for d in reversed(missing):
            st.V.put(d, ('d',))
            st.created.add(d)
            made.append(d)
            if physical and self.T_pre.is_file(d):
                st.disturbed.add(d)
        if physical and self.T_pre.is_dir(path):
            # a stale directory at the target position is emptied and removed
            pre = path + '/'
            for q, n in self.T_pre.nodes.items():
                if n[0] == 'f' and q.startswith(pre):
                    st.disturbed.add(q)
        return made

    def _fail_file(self, st, path):
        """Virtual clean-up after a failed build_file for ``path``."""
        st.inprog.discard(path)
        if st.V.is_file(path):
            st.V.remove(path)
        d = os.path.dirname(path)
        while d in st.created and not st.V.has_children(d) and not any(
                q.startswith(d + '/') for q in st.inprog):
            st.V.remove(d)
            st.created.discard(d)
            d = os.path.dirname(d)

    # ------------------------------------------------------------------
    # replay of a record on a forked state (M2)
    def _replay_subs(self, rec, st):
        for s in rec.subs:
            if not isinstance(s, Rec):
                _, kind, p, cmp, sig = s
                if self._try_query_sig(st, kind, p, cmp) != sig:
                    return 'query %s %s' % (kind, p[len(self.base) + 1:])
                continue
            if s.status == 'setup':
                return 'nested setup failure'
            if not self._version_same(s.fname):
                return 'version %s' % s.fname
            if s.key in st.claims:
                return 'key already claimed'
            if s.kind == 's':
                st.claims[s.key] = 'inprog'
                why = self._replay_subs(s, st)
                if why:
                    return why
                st.claims[s.key] = s.status
            else:
                if s.status == 'ok' and not self._intact(s, st):
                    return 'output changed'
                if s.status == 'raised' and st.V.exists(s.path):
                    # re-executing would remove the (foreign) file, or fail
                    # in setup if it is a directory
                    return 'failed output path exists'
                try:
                    # (applying a served record creates the directories of
                    # its successful outputs for real)
                    self._setup_file(st, s.path, physical=s.status == 'ok')
                except Invalid:
                    raise
                except Exception:
                    return 'nested setup would fail'
                st.claims[s.key] = 'inprog'
                st.inprog.add(s.path)
                why = self._replay_subs(s, st)
                if why:
                    return why
                st.claims[s.key] = s.status
                if s.status == 'ok':
                    st.inprog.discard(s.path)
                    n = self.T_pre.get(s.path)
                    st.V.put(s.path, ('f', n[1], n[2]))
                    self._replayed_outputs.append(s.path)
                else:
                    self._fail_file(st, s.path)
        return None

    def _lookup(self, key, fname, args, kwargs, is_file):
        """Return (rec, forked state after serving) or (None, cause)."""
        if not self.serve:
            return None, 'no cache'
        rec = self.prev.index.get(key)
        if rec is None:
            return None, 'no record'
        if rec.status != 'ok':
            return None, 'record is a failure'
        if rec.fname != fname:
            return None, 'function name'
        if not self._version_same(fname):
            return None, 'version %s' % fname
        if is_file:
            if not (jeq(rec.args, args) and jeq(rec.kwargs, kwargs)):
                return None, 'arguments'
            if not self._intact(rec):
                return None, 'output changed'
        st = self.st.fork()
        self._replayed_outputs = []
        why = self._replay_subs(rec, st)
        if why:
            return None, why
        self.served_outputs.extend(self._replayed_outputs)
        if is_file:
            self.served_outputs.append(rec.path)
        # reach probes: rarely hit shapes of served records
        for r in rec.walk():
            if r is rec:
                continue
            if r.kind == 'f' and r.status == 'raised':
                self.probe('served-nested-failed-build_file')
                if any(x.kind == 'f' and x.status == 'ok'
                       for x in r.walk() if x is not r):
                    self.probe('served-failed-build_file-with-nested-output')
            elif r.status == 'raised':
                self.probe('served-nested-failed-subbuild')
            elif r.kind == 'f':
                self.probe('served-nested-output')
        return rec, st

    def probe(self, name):
        self.probes[name] = self.probes.get(name, 0) + 1

    # ------------------------------------------------------------------
    # builder API used by the interpreter
    def builder(self):
        return ModelBuilder(self, None)

    def write(self, path, data):
        # outputs appear atomically: what a function writes becomes visible
        # when it returns
        if isinstance(data, str):
            data = data.encode()
        if too_long(path):
            import errno
            raise OSError(errno.ENAMETOOLONG, 'File name too long')
        self.pending[path] = ('f', data, self.now)

    def unlink(self, path):
        self.pending.pop(path, None)

    def read_content(self, path):
        n = self.st.V.get(path)
        return n[1]


class ModelBuilder:
    def __init__(self, mb, rec):
        self.mb = mb
        self.rec = rec          # Rec this builder records into (None = root)
        self.done = False

    def _alive(self):
        if self.done:
            raise RuntimeError('finished')

    def _append(self, item):
        if self.rec is not None:
            self.rec.subs.append(item)
        elif isinstance(item, Rec):
            self.mb.roots.append(item)

    # -- queries ---------------------------------------------------------
    def query(self, kind, path, cmp='METADATA'):
        self._alive()
        mb = self.mb
        try:
            ans = mb.query(mb.st, kind, path, cmp)
        except OSError as e:
            self._append(('q', kind, path, cmp, ('exc', type(e).__name__)))
            raise
        self._append(('q', kind, path, cmp,
                      ('ok', mb.answer_sig(kind, ans, cmp))))
        if kind in ('read_text', 'read_binary', 'declare_read'):
            return ans[1]
        if kind in ('walk', 'walk_bu'):
            return [(d, list(s), list(f)) for d, s, f in ans]
        return ans

    # -- build_file ------------------------------------------------------
    def build_file(self, path, fname, func, args, kwargs, cmp='METADATA'):
        self._alive()
        mb = self.mb
        st = mb.st
        args = jround(list(args))
        kwargs = jround(dict(kwargs))
        key = file_key(path)
        rec = Rec('f', key, fname, path, args, kwargs, cmp)
        mb.call_counts[key] = mb.call_counts.get(key, 0) + 1
        hint = mb.hints.get(('setup_fail', key))
        try:
            if hint is not None and not hint.get('used') and \
                    hint.get('occ', mb.call_counts[key]) == \
                    mb.call_counts[key]:
                # an injected internal OSError made this call fail in setup
                if key in st.claims:
                    raise RuntimeError('same file twice')
                hint['used'] = True
                # previous outputs that the call had physically moved aside
                # (making room, or replacing a stale output file by a
                # directory) before the injected error struck no longer match
                # their records
                for q in hint.get('moved', ()):
                    st.disturbed.add(q)
                raise hint['cls']('injected')
            made = mb._setup_file(st, path, physical=True)
        except Invalid:
            raise
        except Exception as e:
            rec.status = 'setup'
            rec.exc = type(e).__name__
            self._append(rec)
            raise
        # the parent directories are reserved for this target from here on
        st.inprog.add(path)
        served, res = mb._lookup(key, fname, args, kwargs, True)
        if served is not None:
            mb.st = st = res
            st.inprog.discard(path)
            rec.status = 'ok'
            rec.ret = served.ret
            rec.subs = served.subs
            n = mb.T_pre.get(path)
            st.V.put(path, ('f', n[1], n[2]))
            rec.out = out_sig(n)
            st.claims[key] = 'ok'
            mb.served.append(key)
            self._append(rec)
            return jround(rec.ret)
        mb.causes[key] = res
        st.claims[key] = 'inprog'
        st.inprog.add(path)
        if st.V.is_file(path):
            # a foreign file at the target path is overwritten
            st.V.remove(path)
            for d in made:
                pass
        mb.executed.append(key)
        sub = ModelBuilder(mb, rec)
        try:
            try:
                ret = func(sub, path, *jround(args), **jround(kwargs))
                try:
                    ret = jround(ret)
                except (TypeError, ValueError):
                    raise TypeError('return value must be JSON')
                if path not in mb.pending:
                    if too_long(path):
                        # looking for the file fails with ENAMETOOLONG
                        import errno
                        raise OSError(errno.ENAMETOOLONG, 'too long')
                    raise RuntimeError("didn't create that file")
            finally:
                sub.done = True
                st = mb.st
        except Invalid:
            raise
        except Exception as e:
            rec.status = 'raised'
            rec.exc = type(e).__name__
            st.claims[key] = 'raised'
            mb.pending.pop(path, None)
            mb._fail_file(st, path)
            self._append(rec)
            raise
        if too_long(path):
            raise Invalid('over-long target was created')
        st.inprog.discard(path)
        st.V.put(path, mb.pending.pop(path))
        rec.status = 'ok'
        rec.ret = ret
        rec.out = out_sig(st.V.get(path))
        st.claims[key] = 'ok'
        self._append(rec)
        return jround(ret)

    # -- subbuild --------------------------------------------------------
    def subbuild(self, fname, func, args, kwargs):
        self._alive()
        mb = self.mb
        st = mb.st
        args = jround(list(args))
        kwargs = jround(dict(kwargs))
        key = sub_key(fname, args, kwargs)
        rec = Rec('s', key, fname, None, args, kwargs, None)
        mb.call_counts[key] = mb.call_counts.get(key, 0) + 1
        if key in st.claims:
            rec.status = 'setup'
            rec.exc = 'RuntimeError'
            self._append(rec)
            raise RuntimeError('same subbuild twice')
        hint = mb.hints.get(('setup_fail', key))
        if hint is not None and not hint.get('used') and \
                hint.get('occ', mb.call_counts.get(key, 1)) == \
                mb.call_counts.get(key, 1):
            hint['used'] = True
            rec.status = 'setup'
            rec.exc = hint['cls'].__name__
            self._append(rec)
            raise hint['cls']('injected')
        served, res = mb._lookup(key, fname, args, kwargs, False)
        if served is not None:
            mb.st = st = res
            rec.status = 'ok'
            rec.ret = served.ret
            rec.subs = served.subs
            st.claims[key] = 'ok'
            mb.served.append(key)
            self._append(rec)
            return jround(rec.ret)
        mb.causes[key] = res
        st.claims[key] = 'inprog'
        mb.executed.append(key)
        sub = ModelBuilder(mb, rec)
        try:
            try:
                ret = func(sub, *jround(args), **jround(kwargs))
                try:
                    ret = jround(ret)
                except (TypeError, ValueError):
                    raise TypeError('return value must be JSON')
            finally:
                sub.done = True
        except Invalid:
            raise
        except Exception as e:
            rec.status = 'raised'
            rec.exc = type(e).__name__
            mb.st.claims[key] = 'raised'
            self._append(rec)
            raise
        rec.status = 'ok'
        rec.ret = ret
        mb.st.claims[key] = 'ok'
        self._append(rec)
        return jround(ret)


def commit(mb):
    """Tree and record after a successful root function."""
    st = mb.st
    T = st.V.copy()
    outputs = set()
    for k, v in st.claims.items():
        if k[0] == 'f' and v == 'ok':
            outputs.add(k[1])
    created = set(d for d in st.created if T.is_dir(d))
    created |= set(d for d in mb.cache_dirs if T.is_dir(d))
    # the forest: every record reachable from the root function's calls.
    forest = list(mb.roots)
    prev = PrevRecord(mb.build_name, mb.versions, forest, outputs, created,
                      mb.cache)
    return T, prev


def clean_tree(T_pre, prev, cache_path):
    """Tree after clean()."""
    T = T_pre.copy()
    if not T.exists(cache_path):
        return T
    for p in prev.outputs:
        if T.is_file(p):
            T.remove(p)
    if T.is_file(cache_path):
        T.remove(cache_path)
    for d in sorted(prev.created_dirs, key=lambda d: -len(d)):
        if T.is_dir(d) and not T.has_children(d):
            T.remove(d)
    return T
