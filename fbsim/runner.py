"""Run one scenario against the real FileBuilder and the reference model.

``run_scenario(scenario)`` is a pure function of the scenario and the code in
the repository tree: it draws no random numbers and reads no clock.
"""
import os
import traceback

from . import seams
from .interp import Interp, CrashError, READS
from .model import (Tree, ModelBuild, Invalid, commit, clean_tree)
from .sandbox import Sandbox
from .util import bdigest, digest


class Violation(Exception):
    def __init__(self, props, oracle, key, detail, step=None):
        Exception.__init__(self, '%s %s %s' % (props, oracle, key))
        self.props = list(props)
        self.oracle = oracle
        self.key = key
        self.detail = detail
        self.step = step

    def to_json(self):
        return {'props': self.props, 'oracle': self.oracle, 'key': self.key,
                'detail': self.detail, 'step': self.step}


class HarnessError(Exception):
    pass


class Outcome:
    """What one API call did, in comparable form."""

    def __init__(self):
        self.kind = None        # 'ok' | 'exc'
        self.value = None
        self.exc = None
        self.exc_obj = None
        self.order = []
        self.tree_sig = None
        self.fault_fired = None
        self.n_opp = 0
        self.n_mut = 0
        self.mut_log = []

    def sig(self):
        return [self.kind, self.exc, digest(self.value), self.order,
                self.tree_sig]


def tree_sig(snap, sb, cache):
    """Digest of a snapshot without inodes, base path or cache bytes."""
    items = []
    for p in sorted(snap):
        n = snap[p]
        if n[0] == 'd':
            items.append([sb.rel(p), 'd'])
        elif p == cache:
            items.append([sb.rel(p), 'cache'])
        else:
            items.append([sb.rel(p), bdigest(n[1]), n[2]])
    return digest(items, 12)


class Run:
    def __init__(self, sc, opts=None):
        self.sc = sc
        self.opts = opts or {}
        self.cfg = sc['config']
        self.sim = seams.install()
        self.fb = self.sim.fb
        self.sb = Sandbox(self.cfg.get('cache_rel', '../cache.gz'))
        self.records = {}          # digest of cache bytes -> PrevRecord
        self.log = []              # event log (deterministic)
        self.stats = {
            'builds': 0, 'commits': 0, 'rollbacks': 0, 'served': 0,
            'executed': 0, 'cleans': 0, 'refused': 0, 'causes': {},
            'faults': {}, 'stmts': 0, 'max_depth': 0, 'restored_files': 0,
            'probes': {},
        }
        self.last_outcome = None
        self.last_model = None
        self.cwd0 = os.getcwd()
        # any other tempfile API the library might use also lands in the
        # sandbox's (leak-checked) temp base
        import tempfile
        self._tempdir0 = tempfile.tempdir
        tempfile.tempdir = self.sb.tmp
        self._pre = self._prev = None
        self.sched_digests = set()
        self.thread_yields = []
        self.sched_choices = {}       # step index -> decisions taken
        self.race_records = {}        # key -> [(child key, ok)] (free steps)
        self.prebuild_snap = None
        self.metadata_games = False
        # two different functions registered under one name: the cache is
        # keyed by the name, so "the same build from scratch" is not defined
        # when both are called with equal keys (the precondition of C01 -
        # a name identifies one deterministic function - does not hold);
        # the comparison with the incremental model stays in force
        names = [f['name'] for f in sc.get('funcs', {}).values()]
        self.name_clash = len(set(names)) < len(names)
        self.build_no = 0
        for m in sc.get('init', []):
            self.sb.apply_mutation(m)

    def close(self):
        import tempfile
        tempfile.tempdir = self._tempdir0
        try:
            os.chdir(self.cwd0)
        except OSError:
            os.chdir('/')
        self.sb.close()

    def probe(self, name, n=1):
        self.stats['probes'][name] = self.stats['probes'].get(name, 0) + n

    # ------------------------------------------------------------------
    def program_targets(self):
        if getattr(self, '_targets', None) is None:
            from .shrink import all_bodies
            t = set()
            for body in all_bodies(self.sc):
                for st in body:
                    if st[0] == 'bf':
                        t.add(self.sb.p(st[1]))
                    elif st[0] == 'bfmany':
                        for k in range(st[2]):
                            t.add(self.sb.p('%s%03d' % (st[1], k)))
            self._targets = t
        return self._targets

    def foreign_hook(self, pre, prev):
        """O-foreign-live: at every statement of the build every foreign
        regular file is physically present and unchanged (C03)."""
        sb = self.sb
        managed = {sb.cache} | self.program_targets()
        if prev is not None:
            managed |= set(prev.outputs)
        watch = [(p, n[3], n[2], len(n[1])) for p, n in sorted(pre.items())
                 if n[0] == 'f' and p not in managed]

        def hook(it, fr, st):
            for p, ino, mtime, size in watch:
                try:
                    s_ = os.stat(p)
                except OSError:
                    it.viol.append(('C03', 'foreign-live-missing',
                                    sb.rel(p)))
                    return
                if s_.st_ino != ino or s_.st_mtime_ns != mtime or \
                        s_.st_size != size:
                    it.viol.append(('C03', 'foreign-live-changed',
                                    sb.rel(p)))
                    return
        return hook if watch else None

    # ------------------------------------------------------------------
    def prev_record(self, snap):
        n = snap.get(self.sb.cache)
        if n is None or n[0] != 'f':
            return None, n
        return self.records.get(bdigest(n[1], 20)), n

    def save_state(self):
        return {
            'snap': self.sb.snapshot(with_ino=False),
            'clock': self.sb.clock.now,
            'tmpc': self.sb.tmp_counter,
            'saved': dict(self.sb.saved_caches),
            'cwd': os.getcwd(),
        }

    def load_state(self, s):
        self.sb.restore(s['snap'])
        self.sb.clock.now = s['clock']
        self.sb.tmp_counter = s['tmpc']
        self.sb.saved_caches = dict(s['saved'])

    # ------------------------------------------------------------------
    def run_steps(self, steps, start=0):
        for i, step in enumerate(steps):
            self.step(start + i, step)

    def step(self, i, step):
        op = step['op']
        try:
            os.getcwd()
        except OSError:
            # the working directory was deleted by an earlier step
            os.chdir(self.sb.w)
        try:
            if op == 'mutate':
                self.sb.clock.advance(step.get('tick', 1))
                if step.get('tick', 1) <= 0 or any(
                        m[0] == 'stealth' for m in step['muts']):
                    self.metadata_games = True
                for m in step['muts']:
                    if m[0] == 'revert':
                        # put a file back to the content it had before the
                        # last build (somebody restores the original)
                        snap = self.prebuild_snap or {}
                        n = snap.get(self.sb.p(m[1]))
                        if n is not None and n[0] == 'f':
                            self.sb.apply_mutation(['write', m[1], n[1]])
                        continue
                    self.sb.apply_mutation(m)
                self.free_prev = None
                self.log.append(['mutate', i])
            elif op == 'build':
                self.build_step(i, step)
            elif op == 'clean':
                self.clean_step(i, step)
            elif op == 'chdir':
                d = self.sb.p(step['rel'])
                if os.path.isdir(d):
                    os.chdir(d)
                self.log.append(['chdir', i])
            elif op == 'refuse':
                self.refuse_step(i, step)
            elif op == 'freebuild':
                self.free_build_step(i, step)
            elif op == 'freeclean':
                self.free_clean_step(i, step)
            else:
                raise HarnessError('unknown step %r' % (op,))
        except Violation as v:
            if v.step is None:
                v.step = i
            raise

    # ------------------------------------------------------------------
    def real_build(self, step, crash_at=None, fault=None, sched=None):
        """Run FileBuilder.build_versioned for ``step``; return Outcome."""
        sb = self.sb
        sim = self.sim
        if step.get('sched') is not None:
            from .sched import Scheduler
            from . import REPO
            spec = dict(step['sched'])
            if spec.get('line'):
                spec['line_prefix'] = os.path.join(
                    os.path.realpath(REPO), 'file_builder') + os.sep
            sched = Scheduler(spec)
        sim.reset(sandbox=sb, listdir_seed=self.cfg.get('listdir_seed'),
                  fault=fault, sched=sched,
                  log_io=self.opts.get('log_io', False))
        import copy as _copy
        # the caller's own dictionary (user code may edit it later on)
        versions = _copy.deepcopy(step.get('versions', {}))
        it = Interp(self.sc, sb, 'real', versions, crash_at=crash_at,
                    file_comparison=self.fb.FileComparison, sched=sched)
        it.versions_obj = versions
        it.build_no = self.build_no
        it.crash_end = bool(fault and fault.get('crash_end'))
        it.stmt_hook = self.opts.get('stmt_hook')
        if self.cfg.get('foreign_live') and self._pre is not None:
            it.stmt_hook = self.foreign_hook(self._pre, self._prev)
        body = self.sc['roots'][step.get('root', 0)]
        out = Outcome()

        marker = object()
        passed = []

        def root(builder, *a, **kw):
            passed.append((a, kw))
            return it.run_root(builder, body)

        name = step.get('name', self.cfg.get('build_name', 'B'))
        from .interp import spell
        cache_arg = spell(sb.cache, self.cfg.get('cache_spelling'), sb)
        sim.phase = 'build'
        try:
            if step.get('plain'):
                # (arguments of the root function need not be JSON values and
                # are passed through untouched)
                out.value = self.fb.FileBuilder.build(
                    cache_arg, name, root, marker, 7, k=marker)
            else:
                out.value = self.fb.FileBuilder.build_versioned(
                    cache_arg, name, versions, root)
            out.kind = 'ok'
            if step.get('plain') and passed and not (
                    passed[0][0] == (marker, 7) and
                    passed[0][1] == {'k': marker}):
                it.viol.append(('C10', 'root-arguments-altered', 'root'))
        except Exception as e:
            out.kind = 'exc'
            out.exc = type(e).__name__
            out.exc_obj = e
            out.tb = traceback.format_exc()
        except BaseException as e:
            if type(e).__name__ != 'SimDeadlock':
                raise
            out.kind = 'exc'
            out.exc = 'SimDeadlock'
            out.exc_obj = e
            out.tb = traceback.format_exc()
        finally:
            sim.phase = 'idle'
            if sched is not None:
                # the owner's API call has returned; stragglers may go on
                try:
                    sched.join_all()
                except BaseException:
                    pass
            sim.sched = None
            if sched is not None and sched.line:
                import sys
                sys.settrace(None)
        out.sched = sched
        if sched is not None:
            st_ = self.stats.setdefault('schedules', {})
            for k, v in sched.digest_input().items():
                st_[k] = st_.get(k, 0) + v if k != 'max_threads' else max(
                    st_.get(k, 0), v)
            st_['builds_with_threads'] = st_.get(
                'builds_with_threads', 0) + (1 if sched.max_threads > 1
                                             else 0)
            self.sched_digests.add(digest(sched.choices, 10))
            self.sched_choices[self.build_no] = list(sched.choices)
            self.thread_yields.append([t.n_yields for t in sched.threads])
        out.order = list(it.order)
        out.n_opp = it.opp
        out.n_mut = sim.n_mut
        out.mut_log = list(sim.mut_log)
        out.fault_fired = sim.fault_fired
        out.it = it
        self.stats['stmts'] += it.nstmts
        for k, v in sim.probes.items():
            self.probe(k, v)
        return out

    def model_build(self, step, pre, prev, hints=None, serve=True,
                    shints=None):
        sb = self.sb
        versions = step.get('versions', {})
        name = step.get('name', self.cfg.get('build_name', 'B'))
        mb = ModelBuild(Tree(pre, sb.base), prev, sb.cache, sb.base, sb.w, versions,
                        name, sb.clock.now, serve=serve, hints=hints)
        it = Interp(self.sc, sb, 'model', versions, model_build=mb)
        it.build_no = self.build_no
        it.straggler_hints = shints or {}
        body = self.sc['roots'][step.get('root', 0)]
        out = Outcome()
        try:
            out.value = it.run_root(mb.builder(), body)
            out.kind = 'ok'
        except Invalid:
            raise
        except Exception as e:
            out.kind = 'exc'
            out.exc = type(e).__name__
            out.exc_obj = e
        out.order = list(it.order)
        out.it = it
        out.mb = mb
        return out

    # ------------------------------------------------------------------
    def build_step(self, i, step):
        sb = self.sb
        sb.clock.advance(step.get('tick', 1))
        if step.get('tick', 1) <= 0:
            self.metadata_games = True
        self.build_no = i
        pre = sb.snapshot()
        self.prebuild_snap = pre
        prev, cache_node = self.prev_record(pre)
        if cache_node is not None and prev is None:
            raise Invalid('unknown cache content (use a refusal step)')
        fault = step.get('fault')
        crash_at = None
        inj = None
        if fault is not None:
            if fault['kind'] == 'crash':
                crash_at = fault['at']
            else:
                inj = fault
        self.stats['builds'] += 1
        self._pre, self._prev = pre, prev
        real = self.real_build(step, crash_at=crash_at, fault=inj,
                               sched=self.opts.get('sched'))
        post = sb.snapshot()
        if real.it.invalid:
            raise Invalid(real.it.invalid)
        self.last_outcome = real
        real.tree_sig = tree_sig(post, sb, sb.cache)
        self.log.append(['build', i, real.kind, real.exc, real.order,
                         digest(real.value), real.tree_sig,
                         digest(real.sched.choices) if real.sched else None])
        if real.exc == 'SimDeadlock':
            raise Violation(['C09'], 'O-thread', 'deadlock',
                            {'waiting': real.sched.deadlock,
                             'tb': real.tb[-1500:]}, i)
        ctx = {'step': step, 'pre': pre, 'post': post, 'prev': prev,
               'real': real}
        if crash_at is not None or inj is not None:
            if inj is not None:
                step = dict(step, tags=list(step.get('tags', [])) + ['C14'])
                ctx['step'] = step
            if self.check_faulted(i, ctx, fault):
                return
            # the injected error did not propagate out of build(): user code
            # caught it (or best-effort library code absorbed it).  The build
            # must be consistent with the API call(s) that surfaced it having
            # failed in setup.
            hints = {}
            for key, cls, occ, moved in real.it.injected_calls:
                hints[('setup_fail', key)] = {
                    'cls': cls, 'occ': occ,
                    'moved': [os.path.join(sb.base, r) for r in moved
                              if isinstance(r, str)]}
            model = self.model_build(step, pre, prev, hints=hints)
            ctx['model'] = model
            self.compare_build(i, ctx)
            if model.kind == 'ok':
                self.stats['commits'] += 1
                T, rec = commit(model.mb)
                n = post.get(sb.cache)
                self.records[bdigest(n[1], 20)] = rec
            return
        # ---- stragglers (C17): calls made after the owner's API call
        # returned must have been refused
        shints = {}
        for key, recs in sorted(real.it.stragglers.items()):
            late = {}
            for ent in recs:
                o = ent['out']
                rs = real.it.ret_seq.get(ent['owner'])
                if rs is not None and ent['inv_seq'] > rs and \
                        o[0] != '!RuntimeError':
                    raise Violation(
                        ['C17'], 'O-fence', 'late-call-accepted',
                        {'straggler': key, 'stmt': ent['j'],
                         'kind': ent['kind'], 'out': o,
                         'invoked_at': ent['inv_seq'],
                         'owner_returned_at': rs}, i)
                if o[0] == '!RuntimeError':
                    late[ent['j']] = True
                    effect = None
                    if ent.get('entered'):
                        effect = 'function was called'
                    elif ent['kind'] in ('sb', 'bf'):
                        effect = self.refused_call_effect(step, ent, post,
                                                          pre)
                    if effect:
                        # admitted before the owner finished and refused at
                        # the end (known finding KF1), or invoked after the
                        # fence and yet executed (never acceptable)?
                        late_call = rs is not None and ent['inv_seq'] > rs
                        raise Violation(
                            ['C17'], 'O-fence',
                            'late-call-had-effect' if late_call
                            else 'refused-after-effect',
                            {'straggler': key, 'stmt': ent['j'],
                             'kind': ent['kind'], 'effect': effect,
                             'invoked_at': ent['inv_seq'],
                             'owner_returned_at': rs}, i)
            shints[key] = late
        # ---- reference model
        model = self.model_build(step, pre, prev, shints=shints)
        ctx['model'] = model
        self.last_model = model
        mb = model.mb
        self.stats['served'] += len(mb.served)
        for k, v in mb.probes.items():
            self.probe(k, v)
        self.stats['executed'] += len(mb.executed)
        for k, c in mb.causes.items():
            c = c.split(' ')[0] if isinstance(c, str) else str(c)
            self.stats['causes'][c] = self.stats['causes'].get(c, 0) + 1
        if prev is not None and self.cfg.get('m1_crosscheck') and \
                not self.metadata_games and not self.name_clash:
            # model self-consistency: what the incremental model (M2) serves
            # from the record must equal what the from-scratch model (M1)
            # computes - otherwise a too permissive replay rule in the model
            # could hide real staleness
            m1 = self.model_build(step, pre, prev, serve=False, shints=shints)
            same = (m1.kind, m1.exc) == (model.kind, model.exc) and (
                m1.kind != 'ok' or m1.value == model.value)
            if same and m1.kind == 'ok':
                t1, _ = commit(m1.mb)
                t2, _ = commit(model.mb)
                same = {p: (n[0], n[1] if n[0] == 'f' else None)
                        for p, n in t1.nodes.items()} == {
                    p: (n[0], n[1] if n[0] == 'f' else None)
                    for p, n in t2.nodes.items()}
            if not same:
                raise HarnessError(
                    'reference model disagrees with itself (M1 from scratch '
                    'vs M2 incremental) at step %d: %r / %r' % (
                        i, (m1.kind, m1.exc, digest(m1.value)),
                        (model.kind, model.exc, digest(model.value))))
            self.probe('m1-m2-crosschecks')
        try:
            self.compare_build(i, ctx)
        except Violation as v:
            if prev is not None and 'C01' not in v.props and \
                    not self.name_clash and \
                    self.differs_from_scratch(step, ctx):
                # the implementation itself, run without its cache on the
                # same pre-state, behaves differently: cache transparency
                # (C01) is violated by its own statement
                v.props.append('C01')
                v.detail['differs_from_scratch_run'] = True
            raise
        if prev is not None and self.cfg.get('scratch_diff') and \
                not self.metadata_games and not self.name_clash and \
                real.sched is None:
            # model-free differential, in the words of C01: the same build,
            # by the implementation itself, without its cache
            if self.differs_from_scratch(step, ctx):
                raise Violation(
                    ['C01'], 'O-diff', 'incremental-differs-from-scratch',
                    {'note': 'the model agreed with the incremental run'}, i)
            sb.restore(post)
            self.probe('scratch-differentials')
        if model.kind == 'ok':
            self.stats['commits'] += 1
            T, rec = commit(mb)
            n = post.get(sb.cache)
            self.records[bdigest(n[1], 20)] = rec
        else:
            self.stats['rollbacks'] += 1

    # ------------------------------------------------------------------
    # Model-free steps (racing duplicates, C08): who wins a race for a key is
    # not specified, so no sequential model predicts the outcome; what is
    # specified is checked directly.
    def free_build_step(self, i, step):
        """A build whose outcome is judged without the reference model.

        * every key (output path / subbuild name+arguments) is *performed* at
          most once in the build, where a performance is a call that returned
          normally - executed or served from the cache - or is implied by a
          served call whose recorded subtree contains it;
        * no function is entered twice for one key, no deadlock, no exception
          other than RuntimeError for the losers of a race;
        * a sequential build (no ``sched``) additionally equals the same
          build run from scratch by the implementation itself (value, files).
        """
        import types
        sb = self.sb
        sb.clock.advance(step.get('tick', 1))
        self.build_no = i
        pre = sb.snapshot()
        had_cache = sb.cache in pre
        self._pre = self._prev = None
        real = self.real_build(step)
        post = sb.snapshot()
        rit = real.it
        real.tree_sig = tree_sig(post, sb, sb.cache)
        self.last_outcome = real
        self.stats['builds'] += 1
        self.log.append(['freebuild', i, real.kind, real.exc,
                         digest(real.value), real.order, real.tree_sig,
                         digest(real.sched.choices) if real.sched else None])
        tags = step.get('tags', [])
        props = ['C08'] + [t for t in tags if t != 'C08']
        for pr, what, where in rit.viol:
            raise Violation([pr] + [t for t in tags if t != pr], 'O-call',
                            what, {'where': where}, i)
        if real.exc == 'SimDeadlock':
            raise Violation(['C09'] + [t for t in tags if t != 'C09'],
                            'O-thread', 'deadlock',
                            {'info': str(real.exc_obj)}, i)
        if real.kind != 'ok' and step.get('expect_fail') and \
                real.exc == 'UserError':
            # the root function raised after the threads were joined: the
            # build is rolled back to its pre-state (C02), whoever won
            self.stats['rollbacks'] += 1

            def shape(snap):
                return {p: (n[0],) + ((n[1], n[2]) if n[0] == 'f' else ())
                        for p, n in snap.items()}
            a_, b_ = shape(pre), shape(post)
            if a_ != b_:
                diff = sorted(set(a_) ^ set(b_)) or sorted(
                    p for p in a_ if a_[p] != b_.get(p))
                p0 = diff[0]
                key = 'not-restored' if p0 in a_ else (
                    'extra-f' if b_[p0][0] == 'f' else 'extra-d')
                raise Violation(['C02'] + [t for t in tags if t != 'C02'],
                                'O-tree', key, {'path': sb.rel(p0)}, i)
            self.probe('race-rollbacks-checked')
            return
        if real.kind != 'ok':
            raise Violation(props, 'O-ret', 'unexpected-exception',
                            {'exc': real.exc, 'tb': real.tb}, i)
        recs = self.race_records
        perf = {}
        why = {}

        def implied(key, via, depth=0):
            for k, ok in recs.get(key, ()):
                if ok:
                    perf[k] = perf.get(k, 0) + 1
                    why.setdefault(k, []).append('implied by served ' + via)
                    if depth < 8:
                        implied(k, via, depth + 1)

        for e in rit.calls_log:
            if e['ok']:
                perf[e['key']] = perf.get(e['key'], 0) + 1
                why.setdefault(e['key'], []).append(
                    ('executed' if e['entered'] else 'served') +
                    ' in ' + e['frame'])
                if not e['entered']:
                    implied(e['key'], e['key'])
            elif e['exc'] not in ('RuntimeError',) and \
                    not e['exc'].startswith('User') and \
                    e['exc'] not in ('ValueError', 'KeyError'):
                raise Violation(props, 'O-thread', 'spurious-exception',
                                {'call': e['key'], 'exc': e['exc']}, i)
        for k in sorted(perf):
            if perf[k] > 1:
                raise Violation(
                    props, 'O-thread', 'duplicate-undetected',
                    {'key': k, 'performed': perf[k], 'how': why[k]}, i)
        # a refusal needs a reason: the key itself, or a key of its recorded
        # subtree, was performed in this build (a rejected attempt to reuse a
        # cached subtree must leave nothing behind that blocks later calls)
        def closure(key, acc, depth=0):
            if key not in recs:
                return False
            for k, ok in recs[key]:
                # (failed children too: a recorded failure occupies its key)
                if k not in acc:
                    acc.add(k)
                    if depth < 8 and k in recs:
                        closure(k, acc, depth + 1)
            return True

        attempts = {}
        for e in rit.calls_log:
            # (a function that was entered and did not create its file also
            # ends in a RuntimeError: an attempt, not a refusal)
            if e['exc'] != 'RuntimeError' or e['entered']:
                attempts[e['key']] = attempts.get(e['key'], 0) + 1
        for e in rit.calls_log:
            if not e['ok'] and e['exc'] == 'RuntimeError' and \
                    not e['entered']:
                K = e['key']
                if perf.get(K, 0) >= 1 or attempts.get(K, 0) >= 1:
                    continue
                sub = set()
                if not closure(K, sub):
                    continue
                if any(perf.get(k, 0) >= 1 or attempts.get(k, 0) >= 1
                       for k in sub):
                    continue
                raise Violation(props, 'O-thread', 'spurious-refusal',
                                {'key': K, 'in': e['frame'],
                                 'subtree': sorted(sub)}, i)
        if perf:
            self.probe('race-keys-checked', len(perf))
        if any(e['exc'] == 'RuntimeError' for e in rit.calls_log):
            self.probe('race-duplicate-refused')
        # bookkeeping: the recorded children of every key
        for e in rit.calls_log:
            if e['ok'] and e['entered']:
                recs[e['key']] = [(c['key'], c['ok']) for c in rit.calls_log
                                  if c['frame'] == e['key']]
            elif not e['ok']:
                recs.pop(e['key'], None)
        if step.get('noexec') and \
                getattr(self, 'free_prev', None) == step.get('root', 0) and \
                [x for x in real.order if x != 'root']:
            # nothing changed since the previous (threaded) build committed:
            # every record is valid, no function may run again
            raise Violation(
                ['C05', 'C09'] + [t for t in tags if t not in ('C05', 'C09')],
                'O-inv', 'unjustified-after-threads',
                {'real_executed': real.order}, i)
        if step.get('sched') is None and had_cache and \
                not step.get('nodiff'):
            targets = [t for t in sorted(self.program_targets())]
            fake = types.SimpleNamespace(outputs=targets, created_dirs=[])
            ctx = {'pre': pre, 'prev': fake, 'real': real, 'post': post}
            if self.differs_from_scratch(step, ctx):
                raise Violation(
                    ['C01'] + props, 'O-diff',
                    'incremental-differs-from-scratch',
                    {'note': 'sequential build after racing builds'}, i)
            sb.restore(post)
            self.probe('scratch-differentials')
        self.stats['commits'] += 1
        self.free_prev = step.get('root', 0)

    def free_clean_step(self, i, step):
        sb = self.sb
        sb.clock.advance(1)
        self.sim.reset(sandbox=sb,
                       listdir_seed=self.cfg.get('listdir_seed'))
        self.sim.phase = 'clean'
        kind, exc = 'ok', None
        try:
            self.fb.FileBuilder.clean(sb.cache,
                                      self.cfg.get('build_name', 'B'))
        except Exception as e:
            kind, exc = 'exc', type(e).__name__
        finally:
            self.sim.phase = 'idle'
        post = sb.snapshot()
        self.log.append(['freeclean', i, kind, exc,
                         tree_sig(post, sb, sb.cache)])
        self.stats['cleans'] += 1
        tags = step.get('tags', [])
        props = ['C12'] + [t for t in tags if t != 'C12']
        if kind != 'ok':
            raise Violation(props, 'O-ret', 'clean-raised', {'exc': exc}, i)
        left = [sb.rel(p) for p in sorted(self.program_targets())
                if p in post] + ([sb.rel(sb.cache)] if sb.cache in post
                                 else [])
        if left:
            raise Violation(props, 'O-tree', 'clean-left-f',
                            {'path': left[0]}, i)
        self.race_records.clear()
        self.free_prev = None

    def refused_call_effect(self, step, ent, post, pre):
        """Did a builder call that raised RuntimeError('already finished')
        leave something behind?  Looks at the tree and at the cache file the
        build wrote (persisted state is observable state)."""
        import gzip as _gz
        import json as _json
        sb = self.sb
        body = None
        for st in self.straggler_bodies():
            if st is not None:
                pass
        s = ent.get('stmt')
        if s is None:
            return None
        if s[0] == 'bf':
            path = sb.p(s[1])
            n, o = post.get(path), pre.get(path)
            committed = self.last_outcome is not None and \
                self.last_outcome.kind == 'ok'
            if n is not None and (o is None or n[:3] != o[:3]):
                return 'output file was written'
            if n is not None and committed:
                # (straggler targets are used by nobody else: after a commit
                # the file can only be there because of the refused call)
                return 'output file kept by the commit'
        n = post.get(sb.cache)
        if n is None or n[0] != 'f' or self.last_outcome is None or \
                self.last_outcome.kind != 'ok':
            # no cache file was committed by this build
            return None
        try:
            doc = _json.loads(_gz.decompress(n[1]).decode())
        except Exception:
            return None

        def walk(ops):
            for op in ops:
                yield op
                for x in walk(op.get('suboperations', [])):
                    yield x
        for op in walk(doc.get('rootOperations', [])):
            if s[0] == 'bf' and op.get('type') == 'build_file' and \
                    op.get('filename') == sb.p(s[1]):
                return 'recorded in the cache file'
            if s[0] == 'sb' and op.get('type') == 'subbuild' and \
                    op.get('funcName') == self.sc['funcs'][s[1]]['name'] \
                    and op.get('args') == s[2]:
                return 'recorded in the cache file'
        del body
        return None

    def straggler_bodies(self):
        return ()

    def differs_from_scratch(self, step, ctx):
        """Differential oracle in the words of C01: rerun the same build on
        the same pre-state after deleting the previous build's outputs, the
        cache file and the emptied created directories, and compare value,
        exception type and final tree (paths, types, bytes)."""
        sb = self.sb
        pre, prev, real = ctx['pre'], ctx['prev'], ctx['real']
        saved_clock, saved_tmpc = sb.clock.now, sb.tmp_counter
        try:
            sb.restore(pre)
            for p in prev.outputs:
                if os.path.isfile(p):
                    os.remove(p)
            if os.path.isfile(sb.cache):
                os.remove(sb.cache)
            for d in sorted(prev.created_dirs, key=lambda d: -len(d)):
                try:
                    os.rmdir(d)
                except OSError:
                    pass
            scratch = self.real_build(step)
            post2 = sb.snapshot()
        except Exception:
            return False
        finally:
            sb.clock.now, sb.tmp_counter = saved_clock, saved_tmpc

        def shape(snap):
            return {p: (n[0], n[1] if n[0] == 'f' and p != sb.cache else None)
                    for p, n in snap.items()}
        if (scratch.kind, scratch.exc) != (real.kind, real.exc):
            return True
        if scratch.kind != 'ok':
            # a failing build is rolled back to its own pre-state (C02); only
            # the exception type is comparable
            return False
        if scratch.value != real.value:
            return True
        return shape(post2) != shape(ctx['post'])

    # ------------------------------------------------------------------
    def props_ctx(self, ctx, base):
        """Attribute a violation to properties using the step context."""
        props = list(base)
        tags = ctx['step'].get('tags', [])
        if props == ['C04']:
            # a wrong answer is a view error; it also counts against the
            # properties that explicitly include the view (C10: "at once in
            # the virtual view"; C14; concurrent use)
            tags = [t for t in tags if t in ('C14', 'C10', 'C09', 'C17')]
        elif props == ['C03']:
            tags = [t for t in tags if t in ('C14', 'C09')]
        if props == ['C05']:
            # redundant work is not a breach of the build_file contract
            tags = [t for t in tags if t != 'C10']
        for t in tags:
            if t not in props:
                props.append(t)
        return props

    def compare_build(self, i, ctx):
        sb = self.sb
        real, model = ctx['real'], ctx['model']
        rit, mit = real.it, model.it
        V = lambda props, oracle, key, detail: Violation(  # noqa: E731
            self.props_ctx(ctx, props), oracle, key, detail, i)
        # (a) in-run physical / structural violations.  When a check for one
        # property is running, a violation of another property does not stop
        # the evaluation of the remaining oracles of this call: the property
        # under check may be violated as well (e.g. a foreign file that was
        # not moved aside is a C10 violation at function entry and a C03
        # violation after the rollback).
        want = self.opts.get('prop')
        first = None
        for p, what, where in rit.viol:
            v = V([p], 'O-call', what, {'where': where})
            if want is None or want in v.props:
                raise v
            if first is None:
                first = v
        if first is not None:
            try:
                self._compare_build_rest(i, ctx, V)
            except Violation as v:
                if want in v.props:
                    raise
            raise first
        self._compare_build_rest(i, ctx, V)

    def _compare_build_rest(self, i, ctx, V):
        sb = self.sb
        real, model = ctx['real'], ctx['model']
        rit, mit = real.it, model.it
        # (b) walk the real invocation order
        mset = set(mit.order)
        for inv in real.order:
            if inv not in mset:
                base = inv.split('#')[0]
                cause = None
                raise V(['C05'], 'O-inv', 'unjustified:' + inv.split(':')[0],
                        {'inv': inv, 'model_executed': mit.order,
                         'real_executed': real.order,
                         'model_served': [str(k) for k in model.mb.served]})
        if 'C17' in ctx['step'].get('tags', []):
            # every operation that completed before the close is part of the
            # record: what the model must re-execute, the implementation must
            rset = set(real.order)
            for inv in mit.order:
                if inv not in rset:
                    raise V(['C17'], 'O-inv', 'lost-observation',
                            {'inv': inv, 'cause':
                             str(model.mb.causes.get(inv)),
                             'model_executed': mit.order,
                             'real_executed': real.order})
            for key in sorted(set(rit.stragglers) | set(mit.stragglers)):
                ro = [e['out'] for e in sorted(rit.stragglers.get(key, []),
                                               key=lambda e: e['j'])]
                mo = [e['out'] for e in sorted(mit.stragglers.get(key, []),
                                               key=lambda e: e['j'])]
                if ro != mo:
                    raise V(['C17'], 'O-fence', 'straggler-outcome',
                            {'straggler': key, 'real': ro, 'model': mo})
        for inv in rit.done_order:
            robs, mobs = rit.trace[inv], mit.trace[inv]
            if rit.entries.get(inv) != mit.entries.get(inv) and not (
                    self.cfg.get('spelled_race') and real.sched is not None
                    and inv.startswith('s:')):
                # (when threads race for one key spelled differently - 1 and
                # 1.0 - the winner's spelling is what the function receives;
                # the invocation id already is the JSON-canonical key)
                raise V(['C07', 'C10', 'C11'], 'O-call', 'entry-args',
                        {'inv': inv, 'real': rit.entries.get(inv),
                         'model': mit.entries.get(inv)})
            n = min(len(robs), len(mobs))
            for j in range(n):
                if robs[j] != mobs[j]:
                    raise self.obs_violation(ctx, i, inv, j, robs[j],
                                             mobs[j])
            if len(robs) != len(mobs):
                # same prefix but one stopped earlier: an exception (or its
                # absence) in the next statement that the other did not see
                raise V(['C01'], 'O-call', 'control-flow',
                        {'inv': inv, 'real_len': len(robs),
                         'model_len': len(mobs),
                         'real_next': robs[n:n + 1], 'model_next':
                         mobs[n:n + 1], 'real_exc': real.exc,
                         'model_exc': model.exc})
        # (b') outputs served from the cache are not rewritten (same inode)
        pre, post = ctx['pre'], ctx['post']
        if real.kind == 'ok':
            rset = set(real.order)
            for k in model.mb.served_outputs:
                inv = 'f:' + sb.rel(k)
                a, b = pre.get(k), post.get(k)
                if inv in rset or a is None or b is None:
                    continue
                if a[0] == 'f' and b[0] == 'f' and a[3] != b[3]:
                    raise V(['C05'], 'O-rewrite', 'served-output-rewritten',
                            {'path': sb.rel(k)})
        # (c) outcome of the API call
        if real.kind != model.kind or real.exc != model.exc:
            raise V(['C01'], 'O-ret', 'outcome',
                    {'real': [real.kind, real.exc], 'model':
                     [model.kind, model.exc],
                     'tb': getattr(real, 'tb', None)})
        if real.kind == 'ok' and real.value != model.value:
            raise V(['C01'], 'O-ret', 'value',
                    {'real': real.value, 'model': model.value,
                     'stale_candidates':
                     [x for x in mit.order if x not in set(real.order)]})
        if real.kind == 'exc':
            user_raised = any(model.exc_obj is e for e in mit.raised)
            if user_raised and not (
                    rit.raised and real.exc_obj is rit.raised[-1]):
                raise V(['C02'], 'O-ret', 'exception-identity',
                        {'exc': real.exc})
        # (d) tree
        if model.kind == 'ok':
            T, rec = commit(model.mb)
            self.compare_tree(ctx, i, T, committed=True)
        else:
            self.compare_tree(ctx, i, Tree(ctx['pre'], sb.base), committed=False)
        # (e) temp directory
        if sb.tmp_entries():
            raise V(['C02'], 'O-temp', 'temp-leak',
                    {'entries': sb.tmp_entries()})

    def obs_violation(self, ctx, i, inv, j, r, m):
        kind = r[0] if r and isinstance(r, list) else '?'
        detail = {'inv': inv, 'index': j, 'real': r, 'model': m}
        if kind in ('exists', 'is_file', 'is_dir', 'list_dir', 'walk',
                    'walk_bu', 'get_size') or kind in READS:
            if kind in READS and not (
                    str(r[-1]).startswith('!') or str(m[-1]).startswith('!')):
                # a readable file with other content than the model expects:
                # a stale or wrong output / input, not a view error
                return Violation(self.props_ctx(ctx, ['C01']), 'O-ans',
                                 'content:' + kind, detail, i)
            return Violation(self.props_ctx(ctx, ['C04']), 'O-ans',
                             'answer:' + kind, detail, i)
        if kind in ('bf', 'sb'):
            rs, ms = str(r[-1]), str(m[-1])
            if rs.startswith('!') or ms.startswith('!'):
                props = ['C01', 'C10'] if kind == 'bf' else ['C01']
                if 'RuntimeError' in (rs[1:], ms[1:]):
                    props = ['C08'] + props
                return Violation(self.props_ctx(ctx, props), 'O-call',
                                 'call-outcome:' + kind, detail, i)
            return Violation(self.props_ctx(ctx, ['C01']), 'O-call',
                             'call-value:' + kind, detail, i)
        return Violation(self.props_ctx(ctx, ['C01']), 'O-call',
                         'obs:' + str(kind), detail, i)

    # ------------------------------------------------------------------
    def managed_paths(self, ctx, model=None):
        """Paths the build is allowed to touch: cache, previous outputs,
        targets of this build."""
        sb = self.sb
        managed = {sb.cache}
        prev = ctx.get('prev')
        if prev is not None:
            managed |= set(prev.outputs)
        for inv in ctx['real'].order:
            if inv.startswith('f:'):
                managed.add(os.path.join(sb.base, inv[2:].split('#')[0]))
        if model is not None:
            for k in model.mb.st.claims:
                if k[0] == 'f':
                    managed.add(k[1])
        it = ctx['real'].it
        for p in getattr(it, 'attempted', ()):
            managed.add(p)
        return managed

    def compare_tree(self, ctx, i, T, committed):
        """Compare the post snapshot with the expected tree ``T``."""
        sb = self.sb
        pre, post = ctx['pre'], ctx['post']
        prev = ctx.get('prev')
        model = ctx.get('model')
        managed = self.managed_paths(ctx, model)
        exp = dict(T.nodes)
        exp.pop(sb.base, None)
        if committed:
            exp[sb.cache] = ('cache',)
        allowed_extra = set()
        if not committed and prev is not None:
            # latitude stated in C02: directories the previous committed
            # build recorded as created may reappear empty
            allowed_extra = set(prev.created_dirs)
        V = lambda props, key, detail: Violation(  # noqa: E731
            self.props_ctx(ctx, props), 'O-tree', key, detail, i)
        # foreign files first (C03): bytes, mtime, inode unchanged
        for p, n in pre.items():
            if n[0] != 'f' or p in managed:
                continue
            a = post.get(p)
            if a is None or a[0] != 'f':
                raise V(['C03'], 'foreign-file-lost',
                        {'path': sb.rel(p), 'now': a and a[0]})
            if a[1] != n[1] or a[2] != n[2] or a[3] != n[3]:
                raise V(['C03'], 'foreign-file-changed',
                        {'path': sb.rel(p),
                         'what': [a[1] != n[1], a[2] != n[2], a[3] != n[3]]})
        if not committed:
            # every regular file back with identical bytes and mtime; for
            # foreign files (anything but the cache file and the previous
            # build's outputs) this is also C03's "even overwritten foreign
            # files are back"
            prev_out = set(prev.outputs) if prev is not None else set()
            for p, n in sorted(pre.items()):
                if n[0] == 'f':
                    a = post.get(p)
                    if a is None or a[0] != 'f' or a[1] != n[1] or \
                            a[2] != n[2]:
                        props = ['C02']
                        if p != sb.cache and p not in prev_out:
                            props = ['C02', 'C03']
                        raise V(props, 'not-restored', {'path': sb.rel(p)})
        for p in sorted(set(exp) | set(post)):
            e, a = exp.get(p), post.get(p)
            if e is None:
                if a[0] == 'd' and p in allowed_extra and not any(
                        q.startswith(p + '/') and post[q][0] == 'f'
                        for q in post):
                    continue
                props = ['C02'] if not committed else ['C01']
                if a[0] == 'd' and committed:
                    props = ['C01', 'C10']
                raise V(props, 'extra-' + a[0], {'path': sb.rel(p)})
            if a is None:
                props = ['C02'] if not committed else ['C01']
                if pre.get(p) is not None and pre[p][0] == 'd' and \
                        e[0] == 'd':
                    props = ['C03'] + props
                raise V(props, 'missing-' + e[0][0], {'path': sb.rel(p)})
            if e[0] == 'cache':
                if a[0] != 'f':
                    raise V(['C01', 'C16'], 'cache-not-a-file',
                            {'path': sb.rel(p)})
                continue
            if e[0] != a[0]:
                raise V(['C01'] if committed else ['C02'], 'type',
                        {'path': sb.rel(p), 'expected': e[0], 'actual': a[0]})
            if e[0] == 'f':
                if e[1] != a[1]:
                    raise V(['C01'] if committed else ['C02'], 'bytes',
                            {'path': sb.rel(p),
                             'expected': e[1].decode('latin-1'),
                             'actual': a[1].decode('latin-1')})
                if e[2] != a[2]:
                    raise V(['C05'] if committed else ['C02'], 'mtime',
                            {'path': sb.rel(p), 'expected': e[2],
                             'actual': a[2]})

    # ------------------------------------------------------------------
    def check_faulted(self, i, ctx, fault):
        """Oracle for a build with an injected crash / OSError that is
        expected to propagate out of build(): C02's post-conditions."""
        sb = self.sb
        real = ctx['real']
        tag = 'C02' if fault['kind'] == 'crash' else 'C14'
        V = lambda key, detail: Violation(  # noqa: E731
            self.props_ctx(ctx, [tag]), 'O-rollback', key, detail, i)
        if fault['kind'] == 'crash':
            fired = real.it.crashed is not None
        else:
            fired = real.fault_fired is not None
            if fault.get('crash_end') and \
                    real.it.crashed is not None and \
                    real.exc_obj is real.it.crashed:
                # an internal OSError (caught by the program or absorbed by
                # the library) followed by a failure of the root function:
                # the build is rolled back, C02's post-conditions apply
                key = 'crash-only' if not fired else '%s:%s+crash' % (
                    real.fault_fired['call'], real.fault_fired['errno'])
                self.stats['faults'][key] = \
                    self.stats['faults'].get(key, 0) + 1
                self.stats['rollbacks'] += 1
                self.compare_tree(ctx, i, Tree(ctx['pre'], sb.base),
                                  committed=False)
                if sb.tmp_entries():
                    raise V('temp-leak', {'entries': sb.tmp_entries()})
                return True
        if not fired:
            self.fault_not_fired = True
            return False
        key = fault['kind'] if fault['kind'] == 'crash' else (
            '%s:%s' % (real.fault_fired['call'], real.fault_fired['errno']))
        self.stats['faults'][key] = self.stats['faults'].get(key, 0) + 1
        if real.kind != 'exc':
            if fault['kind'] == 'crash':
                raise V('crash-swallowed', {'at': fault['at']})
            self.probe('fault-absorbed')
            return False
        if fault['kind'] == 'crash' and real.exc_obj is not real.it.crashed:
            raise V('exception-identity',
                    {'got': real.exc, 'tb': getattr(real, 'tb', None)})
        if fault['kind'] != 'crash':
            if not _chain_injected(real.exc_obj):
                # build() failed, but with an exception unrelated to the
                # injected error: the program caught the injected one and
                # something else failed later
                self.probe('fault-caught-then-other-failure')
                return False
            if not getattr(real.exc_obj, '_fbsim_injected', False):
                self.probe('fault-transformed:' + real.exc)
        self.stats['rollbacks'] += 1
        self.compare_tree(ctx, i, Tree(ctx['pre'], sb.base), committed=False)
        if sb.tmp_entries():
            raise V('temp-leak', {'entries': sb.tmp_entries()})
        return True

    # ------------------------------------------------------------------
    def fault_mode(self):
        """Scenario mode 'fault': steps before ``fault_step`` run normally;
        then, from that state, (1) a baseline continuation without fault and
        (2) for each fault of the plan: restore, faulted build, rollback
        oracle, and the twin check - the same continuation must behave
        exactly like the baseline."""
        sc = self.sc
        steps = sc['steps']
        i = sc['fault_step']
        follow = sc.get('follow', 1)
        self.run_steps(steps[:i])
        s0 = self.save_state()
        rec0 = dict(self.records)
        cont = [steps[i]] + steps[i + 1:i + 1 + follow]
        base = self.play(i, cont)
        first = self.first_outcome
        plan = sc.get('fault')
        if plan is None:
            kind = sc['sweep']
            n = first.n_opp if kind == 'crash' else first.n_mut
            cap = sc.get('sweep_max')
            ks = list(range(n))
            if cap is not None and n > cap:
                # deterministic sub-sample that keeps both ends
                stride = n / float(cap)
                ks = sorted(set(int(j * stride) for j in range(cap)) |
                            {n - 1})
            if kind == 'crash':
                plan = [{'kind': 'crash', 'at': k} for k in ks]
            else:
                only = sc.get('only_calls')
                if only == ['@cache']:
                    # the calls that move the old cache file aside and write
                    # the new one ("while the cache file is being written")
                    crel = self.sb.rel(self.sb.cache)
                    ks = []
                    for k in range(n):
                        _, knd, pth = first.mut_log[k]
                        if knd.startswith('gz') or pth == crel:
                            if pth == crel and knd in ('rename', 'replace') \
                                    and k > 0 and \
                                    first.mut_log[k - 1][1] == 'makedirs' \
                                    and (k - 1) not in ks:
                                ks.append(k - 1)
                            ks.append(k)
                elif only:
                    ks = [k for k in range(n)
                          if first.mut_log[k][1] in only]
                if only and cap is not None and len(ks) > cap:
                    # (the cap also holds for filtered fault points)
                    stride = len(ks) / float(cap)
                    ks = sorted(set(ks[int(j * stride)]
                                    for j in range(cap)) | {ks[-1]})
                errnos = sc.get('errnos', ['ENOSPC'])
                rot = sc.get('seed', 0)
                plan = [{'kind': 'oserror', 'index': k,
                         'errno': errnos[(k + rot) % len(errnos)]}
                        for k in ks]
                if sc.get('crash_end'):
                    # every fault is also run followed by a failure of the
                    # root function (rollback after a caught / absorbed error)
                    plan = plan + [dict(f, crash_end=True) for f in plan]
                if sc.get('torn'):
                    plan.append({'kind': 'torn', 'frac': 0.5})
                    plan.append({'kind': 'torn', 'frac': 0.0})
        elif isinstance(plan, dict):
            plan = [plan]
        self.fault_runs = 0
        want = self.opts.get('prop')
        deferred = None
        for f in plan:
            self.load_state(s0)
            self.records = dict(rec0)
            self.current_fault = f
            self.fault_not_fired = False
            self.fault_runs += 1
            try:
                self.step(i, dict(steps[i], fault=f))
            except Violation as v:
                if want is None or want in v.props:
                    raise
                # a violation of another property: remember the first one and
                # go on with the sweep - the property under check may be
                # violated by a later fault of the plan
                if deferred is None:
                    deferred = (v, f)
                continue
            if self.fault_not_fired:
                continue
            out = self.last_outcome
            if out.kind == 'exc' and (
                    f['kind'] == 'crash' or _chain_injected(out.exc_obj) or
                    (f.get('crash_end') and type(out.exc_obj).__name__ ==
                     'CrashError')):
                # rolled back: the twin continuation must match the baseline
                # (same simulated time as the baseline continuation)
                self.sb.clock.now = s0['clock']
                twin = self.play(i, cont)
                if twin != base:
                    raise Violation(
                        ['C02' if f['kind'] == 'crash' else 'C14'],
                        'O-twin', 'twin-differs',
                        {'fault': f, 'baseline': base, 'twin': twin}, i)
        if deferred is not None:
            self.current_fault = deferred[1]
            raise deferred[0]
        self.current_fault = None

    def play(self, i, cont):
        sigs = []
        self.first_outcome = None
        for j, st in enumerate(cont):
            self.step(i + j, st)
            if st['op'] in ('build', 'clean'):
                o = self.last_outcome
                if self.first_outcome is None:
                    self.first_outcome = o
                sigs.append([o.kind, o.exc, digest(o.value),
                             list(o.order), o.tree_sig])
        return sigs

    # ------------------------------------------------------------------
    def refuse_step(self, i, step):
        """C15: a call that must be refused, with no side effect at all."""
        import gzip as _gz
        import json as _json
        sb = self.sb
        how, arg = step['how'], step.get('arg', 0)
        sb.clock.advance(1)
        state = self.save_state()
        valid = state['snap'].get(sb.cache)
        has_cache = valid is not None and valid[0] == 'f'
        needs_cache = how.startswith(('trunc', 'flip', 'gz-', 'not-gzip',
                                      'wrong-name', 'clean-'))
        if needs_cache and not has_cache:
            self.log.append(['refuse', i, how, 'skipped'])
            return
        data = valid[1] if has_cache else b''
        new = None
        if how.startswith('trunc') or how == 'clean-trunc':
            n = {'trunc0': 0, 'trunc1': 1, 'trunc10': 10,
                 'truncmid': len(data) // 2, 'trunclast': len(data) - 1,
                 'clean-trunc': len(data) // 2}[how]
            new = data[:max(0, min(n, len(data) - 1))]
        elif how.startswith('flip'):
            if how == 'flip-header':
                pos = arg % 3              # magic / method bytes
            elif how == 'flip-trailer':
                pos = len(data) - 1 - arg % 8
            else:
                # (independent of the compressed length, which varies by a
                # byte or two with the digits of the sandbox path)
                pos = 16 + arg % max(1, min(64, len(data) - 24))
            b = bytearray(data)
            b[pos] ^= 1 << (arg % 8)
            new = bytes(b)
        elif how == 'gz-nonjson':
            new = _gz.compress(b'this is not json')
        elif how == 'gz-list':
            new = _gz.compress(b'[1, 2, 3]')
        elif how in ('gz-other-software', 'gz-newer-version',
                     'gz-missing-keys'):
            doc = _json.loads(_gz.decompress(data).decode())
            if how == 'gz-other-software':
                doc['software'] = 'other_tool'
            elif how == 'gz-newer-version':
                doc['cacheFileVersion'] = 2
            else:
                doc = {'software': 'file_builder', 'cacheFileVersion': None}
            new = _gz.compress(_json.dumps(doc).encode())
        elif how.startswith('gz-drop:') or how == 'clean-gz-drop':
            doc = _json.loads(_gz.decompress(data).decode())
            keys = ['createdDirs', 'rootOperations', 'buildName',
                    'funcVersions', 'operationVersions', 'cacheFileVersion']
            key = how.split(':')[1] if ':' in how else keys[arg % len(keys)]
            doc.pop(key, None)
            new = _gz.compress(_json.dumps(doc).encode())
        elif how in ('gz-nested', 'clean-gz-nested'):
            # one field of one (nested) operation record gets a value of the
            # wrong type: output file names that are not strings, a missing
            # list of suboperations, an unknown comparison kind
            doc = _json.loads(_gz.decompress(data).decode())
            recs_ = []

            def walk_(ops):
                for o in ops:
                    if isinstance(o, dict):
                        recs_.append(o)
                        walk_(o.get('suboperations') or [])
            walk_(doc.get('rootOperations') or [])
            cands = []
            for o in recs_:
                if 'suboperations' in o:
                    cands.append((o, 'suboperations', None))
                # (records of calls that failed in setup are not indexed when
                # the cache is loaded; their file names are never looked at)
                if o.get('type') == 'build_file' and \
                        not o.get('setupFailed'):
                    cands.append((o, 'filename', None))
                    cands.append((o, 'filename', 5))
                    cands.append((o, 'fileComparison', 'FOO'))
            if not cands:
                self.load_state(state)
                self.log.append(['refuse', i, how, 'skipped'])
                return
            o, fld, val = cands[arg % len(cands)]
            o[fld] = val
            new = _gz.compress(_json.dumps(doc).encode())
        elif how == 'gz-null':
            new = _gz.compress(b'null')
        elif how == 'gz-string':
            new = _gz.compress(b'"file_builder"')
        elif how in ('not-gzip', 'clean-not-gzip'):
            new = b'{"software": "file_builder"}'
        if new is not None:
            sb.apply_mutation(['cachebytes', new])
        if how == 'dir-at-cache':
            if has_cache:
                os.remove(sb.cache)
            if not os.path.isdir(os.path.dirname(sb.cache)):
                self.load_state(state)
                self.log.append(['refuse', i, how, 'skipped'])
                return
            os.mkdir(sb.cache)
        snap = sb.snapshot()
        entered = []

        def root(builder):
            entered.append(1)
            return 0

        name = self.cfg.get('build_name', 'B')
        cache = sb.cache
        versions = {}
        func = root
        is_clean = how.startswith('clean-')
        expect = None
        # names that differ from the stored one in every way a loose
        # comparison might miss (empty, case, trailing blank, prefix)
        wrong_names = ['another build', '', name.lower() + name.upper(),
                       name + ' ', name[:-1], name + '\x00', 'None']
        wrong = wrong_names[(arg if isinstance(arg, int) else 0) %
                            len(wrong_names)]
        if wrong == name:
            wrong = 'another build'
        if how == 'wrong-name':
            name = wrong
            expect = 'RuntimeError'
        elif how == 'name-not-str':
            name = 7
            expect = 'TypeError'
        elif how == 'func-not-callable':
            func = 'not callable'
            expect = 'TypeError'
        elif how == 'versions-not-dict':
            versions = [1]
            expect = 'TypeError'
        elif how == 'versions-not-json':
            versions = {'f': {1, 2}}
            expect = 'TypeError'
        elif how == 'clean-wrong-name':
            name = wrong
            expect = 'RuntimeError'
        elif how == 'clean-name-not-str':
            name = 7
            expect = 'TypeError'
        elif how == 'cache-path-bad-type':
            cache = 12345
            expect = 'TypeError'
        elif how == 'dir-at-cache':
            expect = 'IsADirectoryError'
        elif how.startswith(('trunc', 'gz-', 'not-gzip', 'clean-trunc',
                             'clean-not-gzip', 'clean-gz-nested')):
            expect = 'RuntimeError'
            if how == 'gz-missing-keys' or 'drop' in how or 'nested' in how:
                expect = None       # any exception, before any effect
        self.sim.reset(sandbox=sb, listdir_seed=self.cfg.get('listdir_seed'))
        self.sim.phase = 'clean'
        exc = None
        try:
            if is_clean:
                self.fb.FileBuilder.clean(cache, name)
            else:
                self.fb.FileBuilder.build_versioned(
                    cache, name, versions, func)
        except Exception as e:
            exc = e
        finally:
            self.sim.phase = 'idle'
        post = sb.snapshot()
        tmp_left = sb.tmp_entries()
        self.stats['refused'] += 1
        key = 'refuse:' + how
        self.stats['faults'][key] = self.stats['faults'].get(key, 0) + 1
        self.log.append(['refuse', i, how, type(exc).__name__])
        ctx = {'step': step}
        try:
            if exc is None:
                undetectable = False
                if how.startswith('flip'):
                    # a flipped bit in a header field that gzip ignores leaves
                    # a valid cache with the same content: nothing to refuse.
                    # Decided independently of the library: the corrupted
                    # bytes still decompress to the original JSON text.
                    try:
                        undetectable = _gz.decompress(new) == \
                            _gz.decompress(data)
                    except Exception:
                        undetectable = False
                if undetectable:
                    self.probe('corruption-not-detectable')
                    return
                raise Violation(['C15'], 'O-untouched', 'not-refused',
                                {'how': how}, i)
            if expect is not None and type(exc).__name__ != expect and \
                    not how.startswith('flip'):
                raise Violation(['C15'], 'O-untouched', 'wrong-exception',
                                {'how': how, 'got': type(exc).__name__,
                                 'expected': expect}, i)
            if entered:
                raise Violation(['C15'], 'O-untouched', 'function-called',
                                {'how': how}, i)
            if tmp_left:
                raise Violation(['C15'], 'O-untouched', 'temp-leak',
                                {'how': how, 'entries': tmp_left}, i)
            if snap != post:
                diff = [sb.rel(p) for p in sorted(set(snap) | set(post))
                        if snap.get(p) != post.get(p)]
                raise Violation(['C15'], 'O-untouched', 'tree-changed',
                                {'how': how, 'paths': diff[:6]}, i)
        finally:
            self.load_state(state)
        del ctx

    # ------------------------------------------------------------------
    def clean_step(self, i, step):
        sb = self.sb
        sb.clock.advance(1)
        pre = sb.snapshot()
        prev, cache_node = self.prev_record(pre)
        if cache_node is not None and cache_node[0] == 'f' and prev is None:
            raise Invalid('unknown cache content')
        self.sim.reset(sandbox=sb,
                       listdir_seed=self.cfg.get('listdir_seed'))
        self.sim.phase = 'clean'
        name = step.get('name', self.cfg.get('build_name', 'B'))
        if step.get('anon'):
            name = None
        from .interp import spell
        out = Outcome()
        try:
            self.fb.FileBuilder.clean(
                spell(sb.cache, self.cfg.get('cache_spelling'), sb), name)
            out.kind = 'ok'
        except Exception as e:
            out.kind = 'exc'
            out.exc = type(e).__name__
            out.tb = traceback.format_exc()
        finally:
            self.sim.phase = 'idle'
        post = sb.snapshot()
        out.tree_sig = tree_sig(post, sb, sb.cache)
        self.last_outcome = out
        self.log.append(['clean', i, out.kind, out.exc, out.tree_sig])
        self.stats['cleans'] += 1
        ctx = {'step': step, 'pre': pre, 'post': post, 'prev': prev,
               'real': out}
        out.order = []
        out.it = None
        if out.kind != 'ok':
            raise Violation(self.props_ctx(ctx, ['C12']), 'O-ret',
                            'clean-raised', {'exc': out.exc, 'tb': out.tb},
                            i)
        T = Tree(pre, sb.base)
        if prev is not None:
            T = clean_tree(T, prev, sb.cache)
        ctx['real'].order = []
        try:
            self.compare_tree_clean(ctx, i, T)
        except Violation:
            raise

    def compare_tree_clean(self, ctx, i, T):
        sb = self.sb
        pre, post, prev = ctx['pre'], ctx['post'], ctx['prev']
        managed = {sb.cache}
        if prev is not None:
            managed |= set(prev.outputs)
        V = lambda props, key, detail: Violation(  # noqa: E731
            self.props_ctx(ctx, props), 'O-tree', key, detail, i)
        for p, n in pre.items():
            if n[0] != 'f' or p in managed:
                continue
            a = post.get(p)
            if a is None or a[0] != 'f' or a[1] != n[1] or a[2] != n[2] \
                    or a[3] != n[3]:
                raise V(['C03', 'C12'], 'clean-foreign-file',
                        {'path': sb.rel(p)})
        exp = dict(T.nodes)
        exp.pop(sb.base, None)
        for p in sorted(set(exp) | set(post)):
            e, a = exp.get(p), post.get(p)
            if e is None:
                raise V(['C12'], 'clean-left-' + a[0], {'path': sb.rel(p)})
            if a is None:
                props = ['C12']
                if e[0] == 'd' or p not in managed:
                    props = ['C03', 'C12']
                raise V(props, 'clean-removed-' + e[0], {'path': sb.rel(p)})
            if e[0] != a[0]:
                raise V(['C12'], 'clean-type', {'path': sb.rel(p)})


def _chain_injected(e):
    seen = 0
    while e is not None and seen < 10:
        if getattr(e, '_fbsim_injected', False):
            return True
        e = e.__cause__ or e.__context__
        seen += 1
    return False


def run_scenario(sc, opts=None):
    """Returns dict(verdict=ok|violation|invalid|error, ...).

    ``opts['prop']`` names the property under check (see compare_build)."""
    run = None
    try:
        run = Run(sc, opts)
        try:
            if sc.get('mode') == 'fault':
                run.current_fault = None
                try:
                    run.fault_mode()
                finally:
                    fault_used = run.current_fault
            else:
                fault_used = None
                run.run_steps(sc['steps'])
            res = {'verdict': 'ok'}
        except Violation as v:
            res = {'verdict': 'violation', 'violation': v.to_json()}
            if sc.get('mode') == 'fault':
                res['fault'] = run.current_fault
        except Invalid as e:
            res = {'verdict': 'invalid', 'why': str(e)}
        except HarnessError as e:
            res = {'verdict': 'error', 'error': 'HarnessError: %s' % e}
        run.stats['clock_span_s'] = (
            run.sb.clock.hi - run.sb.clock.lo) // 1000000000
        res['log_digest'] = digest(run.log, 16)
        res['log'] = run.log
        res['runs'] = 1 + getattr(run, 'fault_runs', 0)
        res['sched_digests'] = sorted(run.sched_digests)
        res['thread_yields'] = run.thread_yields
        res['sched_choices'] = run.sched_choices
        res['stats'] = run.stats
        return res
    except Exception:
        return {'verdict': 'error', 'error': traceback.format_exc(),
                'stats': run.stats if run else {}, 'log': [],
                'log_digest': None}
    finally:
        if run is not None:
            run.close()
