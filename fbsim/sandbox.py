"""Sandbox directory on a real (tmpfs) file system, snapshots, external mutations.

The kernel file system is real.  Everything that would make it a source of
nondeterminism is controlled here: modification times are set explicitly from
a simulated clock, the temp directory used by FileBackups is a deterministic
sub-directory of the sandbox (same file system, so os.rename works), and the
sandbox path itself never appears in event logs (paths are logged relative).
"""
import os
import shutil
import itertools

_counter = itertools.count()

CLOCK0 = 1_700_000_000_000_000_000
TICK = 1_000_000_000


def scratch_base():
    # NB: the sandbox path has a fixed length (zero-padded pid and counter):
    # the cache file stores absolute paths, so its compressed size - and with
    # it every byte offset used by the corruption classes - would otherwise
    # depend on the process id.
    for cand in ('/dev/shm', os.environ.get('TMPDIR') or '/tmp'):
        if os.path.isdir(cand) and os.access(cand, os.W_OK):
            return os.path.join(cand, 'fbverif')
    raise RuntimeError('no scratch base')


class Clock:
    def __init__(self):
        self.now = CLOCK0
        self.lo = CLOCK0
        self.hi = CLOCK0

    def advance(self, ticks=1):
        self.now += ticks * TICK
        self.lo = min(self.lo, self.now)
        self.hi = max(self.hi, self.now)


class Sandbox:
    def __init__(self, cache_rel='cache.gz'):
        base = os.path.join(
            scratch_base(), '%07d_%06d' % (os.getpid(), next(_counter)))
        if os.path.exists(base):
            shutil.rmtree(base)
        os.makedirs(base)
        self.base = base
        self.w = os.path.join(base, 'w')
        self.tmp = os.path.join(base, 'tmp')
        os.mkdir(self.w)
        os.mkdir(self.tmp)
        self.cache = os.path.normpath(os.path.join(self.w, cache_rel))
        self.clock = Clock()
        self.saved_caches = {}
        self.tmp_counter = 0
        self._fix_root_times()

    def _fix_root_times(self):
        pass

    def close(self):
        shutil.rmtree(self.base, ignore_errors=True)

    # ------------------------------------------------------------------
    def p(self, rel):
        """Absolute path for a path relative to the work root."""
        if rel in ('', '.'):
            return self.w
        return os.path.normpath(os.path.join(self.w, rel))

    def rel(self, path):
        """Path relative to the sandbox base, for logs ('w/a/b')."""
        if isinstance(path, str) and path.startswith(self.base):
            r = path[len(self.base):].lstrip('/')
            return r or '.'
        return path

    def relv(self, v):
        """Recursively relativise strings inside a value (for logs)."""
        if isinstance(v, str):
            return v.replace(self.base + '/', '').replace(self.base, '.')
        if isinstance(v, (list, tuple)):
            return [self.relv(x) for x in v]
        if isinstance(v, dict):
            return {self.relv(k): self.relv(x) for k, x in v.items()}
        return v

    # ------------------------------------------------------------------
    def snapshot(self, with_ino=True):
        """abs path -> ('d',) | ('f', bytes, mtime_ns, ino) for base/**."""
        snap = {}
        stack = [self.base]
        while stack:
            d = stack.pop()
            with os.scandir(d) as it:
                entries = list(it)
            for e in entries:
                path = e.path
                if e.is_dir(follow_symlinks=False):
                    snap[path] = ('d',)
                    stack.append(path)
                else:
                    st = e.stat(follow_symlinks=False)
                    with open(path, 'rb') as f:
                        data = f.read()
                    snap[path] = ('f', data, st.st_mtime_ns,
                                  st.st_ino if with_ino else 0)
        return snap

    def restore(self, snap):
        """Put the sandbox back into the state of ``snap`` (in place)."""
        for name in os.listdir(self.base):
            path = os.path.join(self.base, name)
            if os.path.isdir(path) and not os.path.islink(path):
                shutil.rmtree(path)
            else:
                os.remove(path)
        for path in sorted(snap):
            node = snap[path]
            if node[0] == 'd':
                os.mkdir(path)
            else:
                with open(path, 'wb') as f:
                    f.write(node[1])
                os.utime(path, ns=(node[2], node[2]))

    def tmp_entries(self):
        return sorted(os.listdir(self.tmp))

    # ------------------------------------------------------------------
    def write_file(self, path, data, mtime=None):
        if isinstance(data, str):
            data = data.encode()
        with open(path, 'wb') as f:
            f.write(data)
        t = self.clock.now if mtime is None else mtime
        os.utime(path, ns=(t, t))

    def _ensure_dir(self, path):
        """Make ``path`` a directory, replacing files on the way."""
        if path == self.base or os.path.isdir(path):
            return
        self._ensure_dir(os.path.dirname(path))
        if os.path.lexists(path):
            os.remove(path)
        os.mkdir(path)

    def _remove(self, path):
        if os.path.isdir(path) and not os.path.islink(path):
            shutil.rmtree(path)
        elif os.path.lexists(path):
            os.remove(path)

    def apply_mutation(self, m):
        """Apply one external mutation (ensure-semantics; never fails)."""
        op = m[0]
        if len(m) > 1 and isinstance(m[1], str) and any(
                len(os.fsencode(c)) > 255 for c in m[1].split('/')):
            return
        if op == 'write':
            path = self.p(m[1])
            if path == self.cache:
                return
            self._ensure_dir(os.path.dirname(path))
            if os.path.isdir(path):
                shutil.rmtree(path)
            self.write_file(path, m[2])
        elif op == 'rm':
            path = self.p(m[1])
            if path == self.w:
                return
            self._remove(path)
        elif op == 'mkdir':
            path = self.p(m[1])
            if path == self.cache or self.cache.startswith(path + '/') \
                    and os.path.isfile(path):
                return
            self._ensure_dir(path)
        elif op == 'touch':
            path = self.p(m[1])
            if os.path.isfile(path):
                os.utime(path, ns=(self.clock.now, self.clock.now))
        elif op == 'stealth':
            # content changes, size and mtime stay (C13 profiles only)
            path = self.p(m[1])
            if os.path.isfile(path) and path != self.cache:
                st = os.stat(path)
                with open(path, 'rb') as f:
                    data = f.read()
                if data:
                    new = bytes((b ^ 1) if i == 0 else b
                                for i, b in enumerate(data))
                    with open(path, 'wb') as f:
                        f.write(new)
                    os.utime(path, ns=(st.st_mtime_ns, st.st_mtime_ns))
        elif op == 'rmcache':
            if os.path.isfile(self.cache):
                os.remove(self.cache)
        elif op == 'savecache':
            if os.path.isfile(self.cache):
                st = os.stat(self.cache)
                with open(self.cache, 'rb') as f:
                    self.saved_caches[m[1]] = (f.read(), st.st_mtime_ns)
        elif op == 'restorecache':
            saved = self.saved_caches.get(m[1])
            if saved is not None and os.path.isdir(
                    os.path.dirname(self.cache)) and not os.path.isdir(
                        self.cache):
                with open(self.cache, 'wb') as f:
                    f.write(saved[0])
                os.utime(self.cache, ns=(saved[1], saved[1]))
        elif op == 'cachebytes':
            # replace cache file bytes (corruption classes, C15)
            if os.path.isdir(os.path.dirname(self.cache)) and \
                    not os.path.isdir(self.cache):
                st = os.stat(self.cache) if os.path.isfile(self.cache) \
                    else None
                with open(self.cache, 'wb') as f:
                    f.write(m[1])
                if st is not None:
                    # bit rot does not touch the modification time
                    os.utime(self.cache, ns=(st.st_mtime_ns, st.st_mtime_ns))
        elif op == 'clock':
            self.clock.advance(m[1])
        else:
            raise ValueError('unknown mutation %r' % (m,))
