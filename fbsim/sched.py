"""Deterministic thread scheduler: real threads, baton passing.

Every simulated thread is a real ``threading.Thread`` that owns a private
semaphore.  Exactly one simulated thread runs at any time; at every *yield
point* (lock acquire/release, file-system call made by the library, statement
of a generated function, thread start/exit/join) the running thread asks the
scheduler who goes next, releases that thread's semaphore and parks on its
own.  The choice is a pure function of the policy and its seed, so one
scenario is one exactly repeatable interleaving.

Policies
  random   at every decision point switch with probability p (seeded PRNG)
  pct      random priorities, d random priority-change points (PCT)
  sweep    run without preemption, except: thread ``thread`` is preempted at
           its ``at``-th yield point and only resumes when nothing else can
           run (complete for preemption bound 1 when swept over all at)
  choices  explicit list of thread ids, one per decision point (replay form)
"""
import random
import threading


class SimDeadlock(BaseException):
    pass


class SimLock:
    def __init__(self, sched):
        self.sched = sched
        self.owner = None
        self.name = 'L%d' % sched.new_lock_id()

    def acquire(self, blocking=True, timeout=-1):
        s = self.sched
        me = s.me()
        if me is None:
            # a thread the simulator does not know: plain spin is impossible,
            # but this never happens (all threads are created by run_threads)
            self.owner = 'ext'
            return True
        s.yield_point('acq', self.name)
        while self.owner is not None:
            if not blocking:
                return False
            me.blocked_on = self
            s.block()
        self.owner = me.tid
        me.blocked_on = None
        return True

    def release(self):
        s = self.sched
        self.owner = None
        for t in s.threads:
            if t.blocked_on is self:
                t.blocked_on = None
        if s.me() is not None:
            s.yield_point('rel', self.name)

    def locked(self):
        return self.owner is not None

    def __enter__(self):
        self.acquire()
        return self

    def __exit__(self, *exc):
        self.release()
        return False


class SimRLock(SimLock):
    """Re-entrant variant (threading.RLock)."""

    def __init__(self, sched):
        SimLock.__init__(self, sched)
        self.count = 0

    def acquire(self, blocking=True, timeout=-1):
        me = self.sched.me()
        if me is not None and self.owner == me.tid:
            self.count += 1
            return True
        ok = SimLock.acquire(self, blocking, timeout)
        if ok:
            self.count = 1
        return ok

    def release(self):
        self.count -= 1
        if self.count <= 0:
            self.count = 0
            SimLock.release(self)


class SimThread:
    def __init__(self, tid, sched):
        self.tid = tid
        self.sem = threading.Semaphore(0)
        self.done = False
        self.blocked_on = None     # SimLock or None
        self.joining = None        # list of SimThread it waits for
        self.n_yields = 0
        self.real = None
        self.prio = 0

    def runnable(self):
        if self.done or self.blocked_on is not None:
            return False
        if self.joining is not None:
            return all(t.done for t in self.joining)
        return True


class Scheduler:
    def __init__(self, spec=None):
        spec = spec or {'policy': 'random', 'seed': 0, 'p': 0.3}
        self.spec = spec
        self.policy = spec.get('policy', 'random')
        self.rng = random.Random(spec.get('seed', 0))
        self.p = spec.get('p', 0.3)
        self.choices_in = list(spec['choices']) if 'choices' in spec else None
        self.choices = []          # decisions taken (replayable)
        self.threads = []
        self.by_ident = {}
        self.lock_ids = 0
        self.seq = 0
        self.log = []              # (seq, tid, kind, detail)
        self.switches = 0
        self.decisions = 0
        self.deadlock = None
        self.max_threads = 0
        self.preempted = False
        # line-level preemption: every source line executed inside the
        # package under test by a simulated thread is a yield point
        self.line = bool(spec.get('line'))
        self.line_prefix = spec.get('line_prefix')
        self.main = SimThread(0, self)
        self.threads.append(self.main)
        self.by_ident[threading.get_ident()] = self.main
        self.current = self.main
        # pct
        self.pct_changes = set()
        if self.policy == 'pct':
            n = spec.get('steps', 200)
            for _ in range(spec.get('d', 2)):
                self.pct_changes.add(self.rng.randrange(1, n))

    # ------------------------------------------------------------------
    def _tracer(self, frame, event, arg):
        if event != 'call':
            return None
        fn = frame.f_code.co_filename
        if not fn.startswith(self.line_prefix):
            return None
        return self._line_tracer

    def _line_tracer(self, frame, event, arg):
        if event == 'line' and len(self.threads) > 1 and \
                self.deadlock is None:
            self.yield_point('line', frame.f_lineno)
        return self._line_tracer

    def trace_on(self):
        if self.line and self.line_prefix:
            import sys
            sys.settrace(self._tracer)

    def new_lock_id(self):
        self.lock_ids += 1
        return self.lock_ids

    def make_lock(self):
        return SimLock(self)

    def make_rlock(self):
        return SimRLock(self)

    def me(self):
        return self.by_ident.get(threading.get_ident())

    # ------------------------------------------------------------------
    def _choose(self, me, runnable, forced_away=False):
        """Pick the next thread among ``runnable`` (non-empty)."""
        if len(runnable) == 1:
            return runnable[0]
        self.decisions += 1
        if self.choices_in is not None:
            if self.choices_in:
                tid = self.choices_in.pop(0)
                for t in runnable:
                    if t.tid == tid:
                        self.choices.append(tid)
                        return t
            # exhausted or infeasible: continue current / lowest id
            t = me if (me in runnable and not forced_away) else runnable[0]
            self.choices.append(t.tid)
            return t
        pol = self.policy
        if pol == 'random':
            if me in runnable and not forced_away and \
                    self.rng.random() >= self.p:
                t = me
            else:
                t = self.rng.choice(runnable)
        elif pol == 'pct':
            if self.seq in self.pct_changes and me is not None:
                me.prio = -self.seq
            t = max(runnable, key=lambda x: (x.prio, -x.tid))
        elif pol == 'sweep':
            sp = self.spec
            if (not self.preempted and me is not None and
                    me.tid == sp.get('thread') and
                    me.n_yields == sp.get('at') and me in runnable):
                self.preempted = True
                me.prio = -1          # resumes only when nothing else can
                others = [x for x in runnable if x is not me]
                t = min(others, key=lambda x: x.tid)
            else:
                cands = [x for x in runnable if x.prio >= 0] or runnable
                if me in cands and not forced_away:
                    t = me
                else:
                    t = min(cands, key=lambda x: x.tid)
        else:
            t = me if me in runnable and not forced_away else runnable[0]
        self.choices.append(t.tid)
        return t

    def _transfer(self, me, nxt):
        if nxt is me:
            return
        self.switches += 1
        self.current = nxt
        nxt.sem.release()
        me.sem.acquire()
        if self.deadlock is not None and not me.done:
            raise SimDeadlock(self.deadlock)

    def yield_point(self, kind, detail=None):
        me = self.me()
        if me is None:
            return
        if self.deadlock is not None:
            raise SimDeadlock(self.deadlock)
        self.seq += 1
        me.n_yields += 1
        if len(self.threads) == 1:
            return
        if len(self.log) < 20000:
            self.log.append((self.seq, me.tid, kind, detail))
        runnable = [t for t in self.threads if t.runnable()]
        if not runnable:
            return
        nxt = self._choose(me, runnable)
        self._transfer(me, nxt)

    def block(self):
        """Current thread cannot proceed (lock held by another): run others."""
        me = self.me()
        runnable = [t for t in self.threads if t.runnable() and t is not me]
        if not runnable:
            self._deadlock(me)
        nxt = self._choose(me, runnable, forced_away=True)
        self._transfer(me, nxt)

    def _deadlock(self, me):
        info = []
        for t in self.threads:
            if not t.done:
                info.append((t.tid, t.blocked_on.name if t.blocked_on
                             else ('join' if t.joining else 'run'),
                             t.blocked_on.owner if t.blocked_on else None))
        self.deadlock = info
        # wake everybody up so that the threads unwind
        for t in self.threads:
            if t is not me and not t.done:
                t.sem.release()
        raise SimDeadlock(info)

    # ------------------------------------------------------------------
    def run_threads(self, fns):
        """Run the callables as simulated threads; return when all are done.

        Called by a simulated thread (the build's main thread or a worker)."""
        me = self.me()
        kids = []
        for fn in fns:
            t = SimThread(len(self.threads), self)
            self.threads.append(t)
            kids.append(t)
            if self.policy == 'pct':
                t.prio = self.rng.random()

            def body(t=t, fn=fn):
                self.by_ident[threading.get_ident()] = t
                t.sem.acquire()
                self.trace_on()
                try:
                    if self.deadlock is None:
                        fn()
                except SimDeadlock:
                    pass
                finally:
                    t.done = True
                    self._exit(t)
            t.real = threading.Thread(target=body, daemon=True)
            t.real.start()
        self.max_threads = max(self.max_threads, len(self.threads))
        me.joining = kids
        self.seq += 1
        # hand over until all children are done
        while not all(k.done for k in kids):
            runnable = [t for t in self.threads if t.runnable()
                        and t is not me]
            if not runnable:
                if self.deadlock is None:
                    try:
                        self._deadlock(me)
                    except SimDeadlock:
                        pass
                break
            nxt = self._choose(me, runnable, forced_away=True)
            self._transfer_join(me, nxt)
            if self.deadlock is not None:
                break
        me.joining = None
        for k in kids:
            k.real.join(timeout=5)
        if self.deadlock is not None:
            raise SimDeadlock(self.deadlock)

    def spawn_detached(self, fn):
        """Start a simulated thread that nobody joins (a straggler); it is
        scheduled like any other thread.  ``join_all`` waits for all."""
        t = SimThread(len(self.threads), self)
        self.threads.append(t)
        if self.policy == 'pct':
            t.prio = self.rng.random()

        def body():
            self.by_ident[threading.get_ident()] = t
            t.sem.acquire()
            self.trace_on()
            try:
                if self.deadlock is None:
                    fn()
            except SimDeadlock:
                pass
            finally:
                t.done = True
                self._exit(t)
        t.real = threading.Thread(target=body, daemon=True)
        t.real.start()
        self.max_threads = max(self.max_threads, len(self.threads))
        self.trace_on()        # the spawning thread goes on running
        self.yield_point('spawn', t.tid)
        return t

    def join_all(self):
        """Called by the main thread: run until every other thread is done."""
        me = self.me()
        kids = [t for t in self.threads if t is not me]
        if all(k.done for k in kids):
            return
        me.joining = kids
        while not all(k.done for k in kids):
            runnable = [t for t in self.threads if t.runnable()
                        and t is not me]
            if not runnable:
                if self.deadlock is None:
                    try:
                        self._deadlock(me)
                    except SimDeadlock:
                        pass
                break
            nxt = self._choose(me, runnable, forced_away=True)
            self._transfer_join(me, nxt)
            if self.deadlock is not None:
                break
        me.joining = None
        for k in kids:
            if k.real is not None:
                k.real.join(timeout=5)

    def _transfer_join(self, me, nxt):
        self.switches += 1
        self.current = nxt
        nxt.sem.release()
        me.sem.acquire()

    def _exit(self, t):
        """Thread ``t`` finished: pass the baton on."""
        if self.deadlock is not None:
            # make sure the joiner wakes up
            for x in self.threads:
                if x.joining is not None and t in x.joining:
                    x.sem.release()
            return
        runnable = [x for x in self.threads if x.runnable()]
        if not runnable:
            # nobody can run: deadlock among the rest
            rest = [x for x in self.threads if not x.done]
            if rest:
                info = [(x.tid, x.blocked_on.name if x.blocked_on else 'join',
                         x.blocked_on.owner if x.blocked_on else None)
                        for x in rest]
                self.deadlock = info
                for x in rest:
                    x.sem.release()
            return
        nxt = self._choose(None, runnable, forced_away=True)
        self.switches += 1
        self.current = nxt
        nxt.sem.release()

    def digest_input(self):
        return {'switches': self.switches, 'decisions': self.decisions,
                'yields': self.seq, 'max_threads': self.max_threads}
