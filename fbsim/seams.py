"""Seams: proxies substituted into the module namespaces of file_builder.

No source change in /repo is needed: every module of the package does
``import os`` / ``import threading`` / ... and looks the name up at call time,
so the harness replaces those *module attributes of the package only*.  The
rest of the process keeps the real modules.

One ``Sim`` object per process owns: the I/O call counter and log, the fault
plan (which call fails, how), the listdir permutation PRNG, the temp-dir
naming, the build phase (pre-commit / commit / rollback / exit) and the thread
scheduler (fbsim.sched) whose yield points are the lock operations and I/O
calls seen here.
"""
import builtins
import errno as _errno
import gzip as _gzip
import os as _os
import random
import shutil as _shutil
import threading as _threading

from . import import_repo

# Calls FileBuilder makes "to create directories, move files aside or write
# the cache" (C14).  os.remove is deliberately not a fault point: removal of a
# failed output is documented as best effort (errors are logged and skipped),
# and C14 does not list it.
MUTATING = ('mkdir', 'makedirs', 'rename', 'replace', 'rmdir',
            'gzopen_w', 'gzwrite', 'gzclose', 'mkdtemp')

# After the root function returned, only moving the old cache file aside and
# writing the new one are still "before the commit".
CACHE_WRITE_KINDS = ('makedirs', 'rename', 'gzopen_w', 'gzwrite', 'gzclose')

ERRNOS = {
    'ENOSPC': _errno.ENOSPC, 'EACCES': _errno.EACCES, 'EIO': _errno.EIO,
    'EXDEV': _errno.EXDEV, 'ENAMETOOLONG': _errno.ENAMETOOLONG,
    'EROFS': _errno.EROFS,
}


class InjectedOSError(OSError):
    """Marker subclass is NOT used (the code under test must see a plain
    OSError); injected errors are plain OSError instances tagged with an
    attribute instead."""


def make_injected(errname, path):
    code = ERRNOS[errname]
    cls = {
        _errno.EACCES: PermissionError,
    }.get(code, OSError)
    e = cls(code, 'injected ' + errname, path)
    e._fbsim_injected = True
    return e


class Sim:
    def __init__(self):
        self.installed = False
        self.sandbox = None
        self.sched = None
        self.reset()

    def reset(self, sandbox=None, listdir_seed=None, fault=None, sched=None,
              log_io=False):
        self.sandbox = sandbox
        self.fault = fault          # dict or None
        self.fault_fired = None     # description once fired
        self.sched = sched
        self.listdir_rng = (
            random.Random(listdir_seed) if listdir_seed is not None else None)
        self.n_mut = 0              # mutating calls seen before commit phase
        self.mut_log = []           # (idx, kind, relpath) pre-commit
        self.moves = []             # (idx, source relpath) of renames
        self.phase = 'idle'         # idle|build|commit|rollback|exit|clean
        self.io_counts = {}
        self.log_io = log_io
        self.io_log = []
        self.probes = {}

    def probe(self, name):
        self.probes[name] = self.probes.get(name, 0) + 1

    def note_move(self, src):
        """Source of a rename / replace about to be attempted, with the
        index the call will get among the mutating calls (if it is one)."""
        self.moves.append((self.n_mut, self.sandbox.rel(src)
                           if self.sandbox else src))

    # -- called by every proxy I/O function ----------------------------
    def io(self, kind, path=None):
        self.io_counts[kind] = self.io_counts.get(kind, 0) + 1
        sched = self.sched
        if sched is not None:
            sched.yield_point('io', kind)
        if self.log_io:
            self.io_log.append(
                (kind, self.sandbox.rel(path) if self.sandbox else path))
        if kind in MUTATING and (self.phase == 'build' or (
                self.phase == 'cachewrite' and kind in CACHE_WRITE_KINDS)):
            idx = self.n_mut
            self.n_mut += 1
            self.mut_log.append(
                (idx, kind, self.sandbox.rel(path) if self.sandbox else path))
            f = self.fault
            if (f is not None and f.get('kind') == 'oserror' and
                    self.fault_fired is None and f['index'] == idx):
                self.fault_fired = {
                    'index': idx, 'call': kind, 'errno': f['errno'],
                    'path': self.sandbox.rel(path) if self.sandbox else path}
                raise make_injected(f['errno'], path)


SIM = Sim()


class PathProxy:
    def __init__(self, sim):
        self._sim = sim

    def __getattr__(self, name):
        return getattr(_os.path, name)

    def isfile(self, p):
        self._sim.io('isfile', p)
        return _os.path.isfile(p)

    def isdir(self, p):
        self._sim.io('isdir', p)
        return _os.path.isdir(p)

    def exists(self, p):
        self._sim.io('exists', p)
        return _os.path.exists(p)

    def getsize(self, p):
        self._sim.io('getsize', p)
        return _os.path.getsize(p)

    def islink(self, p):
        self._sim.io('islink', p)
        return _os.path.islink(p)


class OsProxy:
    def __init__(self, sim):
        self._sim = sim
        self.path = PathProxy(sim)

    def __getattr__(self, name):
        return getattr(_os, name)

    def mkdir(self, p, *a, **k):
        self._sim.io('mkdir', p)
        return _os.mkdir(p, *a, **k)

    def makedirs(self, p, *a, **k):
        self._sim.io('makedirs', p)
        return _os.makedirs(p, *a, **k)

    def rename(self, a, b, **k):
        self._sim.note_move(a)
        self._sim.io('rename', a)
        return _os.rename(a, b, **k)

    def replace(self, a, b, **k):
        self._sim.note_move(a)
        self._sim.io('replace', b)
        return _os.replace(a, b, **k)

    def rmdir(self, p, **k):
        self._sim.io('rmdir', p)
        return _os.rmdir(p, **k)

    def remove(self, p, **k):
        self._sim.io('remove', p)
        return _os.remove(p, **k)

    def listdir(self, p='.'):
        self._sim.io('listdir', p)
        names = _os.listdir(p)
        rng = self._sim.listdir_rng
        if rng is not None:
            names.sort()
            rng.shuffle(names)
        return names

    def stat(self, p, *a, **k):
        self._sim.io('stat', p)
        return _os.stat(p, *a, **k)


class _GzWriter:
    def __init__(self, sim, real, path):
        self._sim = sim
        self._real = real
        self._path = path

    def write(self, data):
        f = self._sim.fault
        if (f is not None and f.get('kind') == 'torn' and
                self._sim.fault_fired is None and
                self._sim.phase in ('build', 'cachewrite')):
            n = int(len(data) * f.get('frac', 0.5))
            self._real.write(data[:n])
            self._sim.fault_fired = {
                'call': 'gzwrite-torn', 'errno': 'ENOSPC', 'kept': n}
            raise make_injected('ENOSPC', self._path)
        self._sim.io('gzwrite', self._path)
        return self._real.write(data)

    def __enter__(self):
        return self

    def __exit__(self, *exc):
        self._real.close()
        if exc[0] is None:
            self._sim.io('gzclose', self._path)
            if self._sim.phase == 'cachewrite':
                self._sim.phase = 'commit'
        return False

    def close(self):
        self._real.close()

    def __getattr__(self, name):
        return getattr(self._real, name)


class GzipProxy:
    def __init__(self, sim):
        self._sim = sim

    def __getattr__(self, name):
        return getattr(_gzip, name)

    def open(self, filename, mode='rb', *a, **k):
        if 'w' in mode or 'a' in mode or 'x' in mode:
            self._sim.io('gzopen_w', filename)
            return _GzWriter(
                self._sim, _gzip.open(filename, mode, *a, **k), filename)
        self._sim.io('gzopen_r', filename)
        return _gzip.open(filename, mode, *a, **k)


class ShutilProxy:
    def __init__(self, sim):
        self._sim = sim

    def __getattr__(self, name):
        return getattr(_shutil, name)

    def rmtree(self, p, *a, **k):
        self._sim.io('rmtree', p)
        return _shutil.rmtree(p, *a, **k)


class TempfileProxy:
    def __init__(self, sim):
        self._sim = sim

    def __getattr__(self, name):
        import tempfile
        return getattr(tempfile, name)

    def mkdtemp(self, suffix=None, prefix=None, dir=None):
        sb = self._sim.sandbox
        path = _os.path.join(sb.tmp, 'fb_%04d' % sb.tmp_counter)
        sb.tmp_counter += 1
        self._sim.io('mkdtemp', path)
        _os.mkdir(path)
        return path


class ThreadingProxy:
    def __init__(self, sim):
        self._sim = sim

    def __getattr__(self, name):
        return getattr(_threading, name)

    def Lock(self):
        sched = self._sim.sched
        if sched is not None:
            return sched.make_lock()
        return _threading.Lock()

    def RLock(self):
        sched = self._sim.sched
        if sched is not None:
            return sched.make_rlock()
        return _threading.RLock()


def _open_proxy(sim):
    def open_(file, mode='r', *a, **k):
        sim.io('open', file)
        return builtins.open(file, mode, *a, **k)
    return open_


def install(sim=SIM):
    """Substitute the proxies into the file_builder modules (idempotent)."""
    if sim.installed:
        return sim
    fb = import_repo()
    import logging
    logging.getLogger('file_builder').setLevel(logging.CRITICAL + 1)
    import file_builder.build_dirs as m_bd
    import file_builder.cache as m_c
    import file_builder.created_files as m_cf
    import file_builder.file_backups as m_fb
    import file_builder.file_builder as m_b
    import file_builder.simple_operation_executor as m_soe
    osp = OsProxy(sim)
    thp = ThreadingProxy(sim)
    for m in (m_bd, m_c, m_cf, m_fb, m_b, m_soe):
        if hasattr(m, 'os'):
            m.os = osp
        if hasattr(m, 'threading'):
            m.threading = thp
    m_c.gzip = GzipProxy(sim)
    m_fb.shutil = ShutilProxy(sim)
    m_fb.tempfile = TempfileProxy(sim)
    m_soe.open = _open_proxy(sim)
    m_b.open = _open_proxy(sim)

    # phase tracking: wrap the (private) commit / rollback / exit entry points
    FB = m_b.FileBuilder

    def wrap_phase(cls, name, phase):
        orig = getattr(cls, name, None)
        if orig is None:
            return

        def wrapper(self, *a, **k):
            prev = sim.phase
            sim.phase = phase
            try:
                return orig(self, *a, **k)
            finally:
                sim.phase = prev if phase != 'exit' else 'idle'
        wrapper.__name__ = name
        setattr(cls, name, wrapper)

    wrap_phase(FB, '_commit', 'commit')
    wrap_phase(FB, '_roll_back', 'rollback')
    wrap_phase(m_fb.FileBackups, '__exit__', 'exit')
    sim.installed = True
    sim.fb = fb
    return sim
