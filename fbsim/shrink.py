"""Minimisation of a failing scenario (delta debugging over the scenario DSL).

A candidate is kept iff running it yields a violation with the same
(property set ∩ wanted, oracle, key); invalid scenarios and other violations
are rejected.  No randomness: the result is a pure function of the input.
"""
import copy
import json


def vkey(res, prop=None):
    if res.get('verdict') != 'violation':
        return None
    v = res['violation']
    if prop is not None and prop not in v['props']:
        return None
    return (v['oracle'], v['key'])


def _bodies(sc):
    """Yield (container, index/key) for every statement list in a scenario."""
    out = []
    for fid in sorted(sc['funcs']):
        f = sc['funcs'][fid]
        for i in range(len(f['variants'])):
            out.append((f['variants'], i))
    for i in range(len(sc['roots'])):
        out.append((sc['roots'], i))
    return out


def _nested_bodies(body, acc):
    acc.append(body)
    for st in body:
        if st[0] == 'if':
            _nested_bodies(st[2], acc)
            _nested_bodies(st[3], acc)
        elif st[0] == 'spawn':
            for b in st[1]:
                _nested_bodies(b, acc)
    return acc


def all_bodies(sc):
    acc = []
    for cont, i in _bodies(sc):
        _nested_bodies(cont[i], acc)
    return acc


def used_fids(sc):
    used = set()

    def scan(body):
        for st in body:
            if st[0] == 'bf':
                used.add(st[2])
            elif st[0] == 'bfmany':
                used.add(st[3])
            elif st[0] == 'sb':
                used.add(st[1])
            elif st[0] == 'if':
                scan(st[2])
                scan(st[3])
            elif st[0] == 'spawn':
                for b in st[1]:
                    scan(b)
    roots_used = set(s.get('root', 0) for s in sc['steps']
                     if s['op'] == 'build')
    frontier = []
    for r in roots_used:
        if r < len(sc['roots']):
            scan(sc['roots'][r])
    done = set()
    while used - done:
        fid = sorted(used - done)[0]
        done.add(fid)
        f = sc['funcs'].get(fid)
        if f:
            for v in f['variants']:
                scan(v)
    del frontier
    return used


def shrink(sc, run, want, max_runs=600, prop=None):
    """``run(sc) -> result``; ``want`` = (oracle, key) that must persist."""
    budget = [max_runs]
    best = copy.deepcopy(sc)

    def ok(cand):
        if budget[0] <= 0:
            return False
        budget[0] -= 1
        try:
            res = run(cand)
        except Exception:
            return False
        return vkey(res, prop) == want

    changed = True
    while changed and budget[0] > 0:
        changed = False
        # 1. steps (keep at least one)
        i = len(best['steps']) - 1
        while i >= 0 and len(best['steps']) > 1:
            cand = copy.deepcopy(best)
            fs = cand.get('fault_step')
            if fs is not None:
                if i == fs:
                    i -= 1
                    continue
                if i < fs:
                    cand['fault_step'] = fs - 1
            del cand['steps'][i]
            if ok(cand):
                best = cand
                changed = True
            i -= 1
        # 2. drop unused functions
        used = used_fids(best)
        if set(best['funcs']) - used:
            cand = copy.deepcopy(best)
            for fid in list(cand['funcs']):
                if fid not in used:
                    del cand['funcs'][fid]
            if ok(cand):
                best = cand
                changed = True
        # 3. statements
        nb = len(all_bodies(best))
        for bi in range(nb):
            j = 0
            while True:
                bodies = all_bodies(best)
                if bi >= len(bodies) or j >= len(bodies[bi]):
                    break
                cand = copy.deepcopy(best)
                cb = all_bodies(cand)[bi]
                st = cb[j]
                if st[0] in ('await', 'signal'):
                    # synchronisation is part of the scenario's validity
                    # (operations of different threads must stay independent
                    # unless ordered): never removed
                    j += 1
                    continue
                del cb[j]
                if ok(cand):
                    best = cand
                    changed = True
                    continue
                if st[0] == 'if':
                    done = False
                    for branch in (2, 3):
                        cand = copy.deepcopy(best)
                        cb = all_bodies(cand)[bi]
                        cb[j:j + 1] = cb[j][branch]
                        if ok(cand):
                            best = cand
                            changed = True
                            done = True
                            break
                    if done:
                        continue
                j += 1
        # 4. single variant per function
        for fid in sorted(best['funcs']):
            if len(best['funcs'][fid]['variants']) > 1:
                for keep in (0, 1):
                    cand = copy.deepcopy(best)
                    v = cand['funcs'][fid]['variants']
                    cand['funcs'][fid]['variants'] = [v[keep]]
                    if ok(cand):
                        best = cand
                        changed = True
                        break
        # 5. init entries and mutations
        i = len(best.get('init', [])) - 1
        while i >= 0:
            cand = copy.deepcopy(best)
            del cand['init'][i]
            if ok(cand):
                best = cand
                changed = True
            i -= 1
        for si, step in enumerate(best['steps']):
            if step['op'] != 'mutate':
                continue
            i = len(step['muts']) - 1
            while i >= 0 and len(best['steps'][si]['muts']) > 1:
                cand = copy.deepcopy(best)
                del cand['steps'][si]['muts'][i]
                if ok(cand):
                    best = cand
                    changed = True
                i -= 1
        # 6. simplify arguments, versions
        for body in range(len(all_bodies(best))):
            bl = all_bodies(best)[body]
            for j, st in enumerate(bl):
                if st[0] == 'bf' and (st[3] or st[4]):
                    cand = copy.deepcopy(best)
                    s2 = all_bodies(cand)[body][j]
                    s2[3], s2[4] = [], {}
                    if ok(cand):
                        best = cand
                        changed = True
                elif st[0] == 'sb' and (st[2] or st[3]):
                    cand = copy.deepcopy(best)
                    s2 = all_bodies(cand)[body][j]
                    s2[2], s2[3] = [], {}
                    if ok(cand):
                        best = cand
                        changed = True
        for si, step in enumerate(best['steps']):
            if step['op'] == 'build' and step.get('versions'):
                cand = copy.deepcopy(best)
                cand['steps'][si]['versions'] = {}
                if ok(cand):
                    best = cand
                    changed = True
    best.pop('groups', None)
    best.pop('universe', None)
    return best, max_runs - budget[0]


def minimise_schedule(sc, run, want, prop=None, max_runs=120):
    """Replace seeded scheduler specs by the explicit list of decisions they
    produced and remove context switches while the violation persists.

    The result is a replay file whose schedule is a plain trace: thread id
    chosen at each decision point (a decision point is a yield point with more
    than one runnable thread)."""
    budget = [max_runs]

    def attempt(cand):
        if budget[0] <= 0:
            return None
        budget[0] -= 1
        try:
            res = run(cand)
        except Exception:
            return None
        return res if vkey(res, prop) == want else None

    steps = [i for i, st in enumerate(sc['steps']) if st.get('sched')]
    if not steps:
        return sc, 0
    res = attempt(sc)
    if res is None:
        return sc, max_runs - budget[0]
    choices = res.get('sched_choices') or {}
    best = copy.deepcopy(sc)
    for i in steps:
        if i in choices and not best['steps'][i]['sched'].get('line'):
            best['steps'][i]['sched'] = {'policy': 'choices',
                                         'choices': list(choices[i])}
    if attempt(best) is None:
        return sc, max_runs - budget[0]
    for i in steps:
        spec = best['steps'][i]['sched']
        if spec.get('policy') != 'choices':
            continue
        # drop the tail, then remove switches one at a time
        L = spec['choices']
        while L:
            cand = copy.deepcopy(best)
            cand['steps'][i]['sched']['choices'] = L[:len(L) // 2]
            if attempt(cand) is None:
                break
            best = cand
            L = best['steps'][i]['sched']['choices']
        j = 1
        while j < len(best['steps'][i]['sched']['choices']) and budget[0] > 0:
            L = best['steps'][i]['sched']['choices']
            if L[j] != L[j - 1]:
                cand = copy.deepcopy(best)
                cl = cand['steps'][i]['sched']['choices']
                k = j
                while k < len(cl) and cl[k] == L[j]:
                    cl[k] = L[j - 1]
                    k += 1
                if attempt(cand) is not None:
                    best = cand
                    continue
            j += 1
    return best, max_runs - budget[0]


def scenario_size(sc):
    return len(json.dumps(sc))
