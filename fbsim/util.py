"""Small pure helpers: canonical JSON forms, digests."""
import hashlib
import json


def jround(v):
    """The documented JSON round trip (reference for sanitisation)."""
    return json.loads(json.dumps(v))


def canon(v):
    """Canonical hashable form of a JSON value under *JSON equality*.

    Independent of JsonUtil: lists == tuples, 1 == 1.0, bools never equal
    numbers, dict key order irrelevant, non-string keys stringified the way
    json.dumps does it.
    """
    if v is None:
        return ('n',)
    if v is True:
        return ('b', 1)
    if v is False:
        return ('b', 0)
    if isinstance(v, bool):
        return ('b', int(v))
    if isinstance(v, int):
        return ('#', int(v))
    if isinstance(v, float):
        if v != v:
            return ('#', 'nan')
        if v in (float('inf'), -float('inf')):
            return ('#', 'inf' if v > 0 else '-inf')
        if v == int(v):
            return ('#', int(v))
        return ('#', v)
    if isinstance(v, str):
        return ('s', str(v))
    if isinstance(v, (list, tuple)):
        return ('l',) + tuple(canon(x) for x in v)
    if isinstance(v, dict):
        d = {}
        for k, x in v.items():
            d[_key_str(k)] = canon(x)
        return ('d',) + tuple(sorted(d.items()))
    raise TypeError('not a JSON value: %r' % (v,))


def _key_str(k):
    return next(iter(json.loads(json.dumps({k: None})).keys()))


def jeq(a, b):
    return canon(a) == canon(b)


def typed_repr(v):
    """repr that shows concrete types (1 vs 1.0 vs True), for exact compare."""
    if isinstance(v, dict):
        return '{' + ','.join(sorted(
            '%s:%s' % (typed_repr(k), typed_repr(v[k])) for k in v)) + '}'
    if isinstance(v, list):
        return '[' + ','.join(typed_repr(x) for x in v) + ']'
    if isinstance(v, tuple):
        return '(' + ','.join(typed_repr(x) for x in v) + ')'
    return '%s<%r>' % (type(v).__name__, v)


def digest(obj, n=8):
    s = json.dumps(obj, sort_keys=True, default=repr)
    return hashlib.sha1(s.encode()).hexdigest()[:n]


def bdigest(b, n=12):
    return hashlib.sha1(b).hexdigest()[:n]
