#!/usr/bin/env python3
"""Apply a set of behaviour-preserving changes to a scratch checkout of
file-builder (argument: its path).  Used as a precision test: no check may
raise an alarm on the result (bin/benign-test)."""
import os, sys
root = sys.argv[1]
def edit(rel, pairs):
    p = os.path.join(root, rel)
    s = open(p).read()
    for a, b in pairs:
        assert a in s, (rel, a)
        s = s.replace(a, b)
    open(p, 'w').write(s)
edit('file_builder/file_builder.py', [
    ('_commit(', '_commit_build('), ('_roll_back(', '_undo_build('),
    ("sorted_dirs = sorted(dirs, key=lambda dir_: -len(dir_))",
     "sorted_dirs = sorted(dirs, key=lambda dir_: (-dir_.count(os.sep), dir_))"),
    ("logger.info('Committing build operation')", "logger.debug('commit starts')"),
])
edit('file_builder/simple_operation_executor.py', [
    ("        return sorted(subfiles)\n", "        return sorted(subfiles, reverse=True)\n"),
])
edit('file_builder/file_backups.py', [
    ("tempfile.mkdtemp(None, 'file_builder_')", "tempfile.mkdtemp(None, 'fb_backup_')"),
    ("'file_{:02x}'.format(value)", "'bak_{:02x}'.format(value)"),
])
edit('file_builder/cache.py', [
    ("            created_dirs = list(self._created_dirs)\n\n        non_root",
     "            created_dirs = sorted(self._created_dirs)\n\n        non_root"),
])
print('benign refactoring applied to', root)
