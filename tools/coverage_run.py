#!/usr/bin/env python3
"""Line coverage of /repo/file_builder/*.py under the simulator's workload.

usage: tools/coverage_run.py [seeds-per-campaign]   (single process)
Prints per-module coverage and the uncovered line ranges (tests excluded).
"""
import os, sys
sys.path.insert(0, os.path.dirname(os.path.dirname(os.path.abspath(__file__))))
import coverage
n = int(sys.argv[1]) if len(sys.argv) > 1 else 40
cov = coverage.Coverage(include=['/repo/file_builder/*.py'], omit=['*/test/*'], data_file=None)
cov.start()
from fbsim import campaigns
for prop in sorted(campaigns.CAMPAIGNS):
    for c in campaigns.CAMPAIGNS[prop]:
        m = max(3, n // 6) if c.get('mode', 'plain') != 'plain' or c['profile'] in ('threads', 'wide') else n
        for seed in range(m):
            campaigns.run_case(c, seed, 'quick', prop)
cov.stop()
import io
out = io.StringIO()
cov.report(file=out, show_missing=True)
print(out.getvalue())
