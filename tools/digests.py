#!/usr/bin/env python3
"""Print {seed: event-log digest} for n seeds of one campaign (fresh process)."""
import json, os, sys
sys.path.insert(0, os.path.dirname(os.path.dirname(os.path.abspath(__file__))))
from fbsim import campaigns
prop, name, seed0, n = sys.argv[1], sys.argv[2], int(sys.argv[3]), int(sys.argv[4])
camp = campaigns.get(prop, name)
out = {}
for seed in range(seed0, seed0 + n):
    r = campaigns.run_case(camp, seed, 'quick')
    out[seed] = [r['log_digest'], r['verdicts']]
print(json.dumps(out, sort_keys=True))
