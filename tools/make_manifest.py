#!/usr/bin/env python3
"""Regenerate /verif/MANIFEST.json from the campaign table."""
import json, os, subprocess, sys
sys.path.insert(0, os.path.dirname(os.path.dirname(os.path.abspath(__file__))))
from fbsim import campaigns

TEXT = {
 'C01': ('exploration', 'Seeded search over generated build programs and histories (build / external mutation / clean), every build compared with an executable reference model of the documented from-scratch semantics (result, per-invocation observations, final tree) and, on any divergence, with a from-scratch run of the implementation itself on the same pre-state. Evidence, not proof: the space of programs x histories is sampled.', '7 C01'),
 'C02': ('fault_enumeration', 'For each sampled history the last build is re-run from the restored pre-state with an injected exception at every raise opportunity (quick tier: <=16 evenly spaced incl. first and last); model-free oracle: same exception object, byte+mtime identical pre/post snapshot, empty temp dir, and the un-faulted continuation equals the baseline continuation (twin). Crash points are enumerated per scenario, scenarios are sampled.', '7 C02'),
 'C03': ('exploration', 'Foreign files and directories planted throughout generated histories; every foreign file is stat-ed at every interpreted statement of every build and compared (bytes, mtime, inode) after every build/clean/rollback; directories may only disappear if a build created them and they were empty. Sampled histories incl. crash sweeps.', '7 C03'),
 'C04': ('exploration', 'Query-dominated generated programs with probe batteries; every answer (value or OSError subclass) compared with the reference model at the same point of the same invocation, plus model-free mutual-consistency checks of the answers. Sampled programs x histories.', '7 C04'),
 'C05': ('exploration', 'The incremental reference model (M2) computes for every build the set of calls that are justified to run (no record / failure / version / changed query answer / changed output / nested setup failure); every function entry of the real build must be in that set; served outputs must keep inode and mtime. Sampled histories with unchanged rebuilds and single mutations.', '7 C05'),
 'C06': ('exploration', 'Version maps varied between builds over generated call graphs; executed set checked against M2 in the justified direction and results/trees against the model with the new variants (function bodies change only together with their version). Sampled.', '7 C06'),
 'C07': ('exploration', 'State-dependent part of cache identity: call sites whose arguments change from build to build within families of JSON-equal / near-miss values, duplicate calls with respelled keys in one build, path spellings (bytes, PathLike, redundant separators, .., relative after chdir); cache hit / duplicate rejection iff the model key (independent canonical JSON form, os.path.abspath) is equal; arguments received by functions compared with the JSON round trip incl. concrete types.', '7 C07'),
 'C08': ('exploration', 'Sequential: duplicates at generated placements across several builds, compared with the model (RuntimeError, no second entry, first call undisturbed, callers of rejected attempts re-executed later). Threads: two or three simulated threads race for one key under seeded random / PCT / single-preemption schedules; the multiset of outcomes must be {one success, rest RuntimeError} and the winner\'s output intact.', '7 C08'),
 'C09': ('exploration', 'Real threads under a deterministic baton-passing scheduler whose yield points are every lock operation and file-system call of the library and every interpreted statement; independent operations from 2-3 threads; results, tree, following rebuild and clean compared with the sequential reference model; deadlock detector; crash sweeps for rollback under concurrency. Schedules are sampled (random, PCT) or swept for one preemption; free-running stress is deliberately not used (not replayable).', '7 C09'),
 'C10': ('fault_enumeration', 'build_file at generated depths over prior states of target and ancestors x failure modes: physical post-conditions checked right after every call (target absent at entry, regular file with the written bytes after return, absent after failure), virtual view by probes, tree at commit against the model; plus an injected OSError at every pre-commit mkdir/rename/rmdir index of the last build (enumerated per scenario).', '7 C10'),
 'C11': ('exploration', 'Generated programs mutate in place every value that crossed the API (received arguments, returned values fresh and served, list_dir/walk results); the model copies by value, so any aliasing shows as a differing result, cache key or executed set in this or a later build. Sampled.', '7 C11'),
 'C12': ('exploration', 'clean inserted at random positions of generated histories (after commits, rollbacks, tampering, another clean, without cache) and followed by builds; tree compared with the model\'s clean, foreign files with the pre-state, build after clean with a first build. Sampled.', '7 C12'),
 'C13': ('exploration', 'Simulated clock (advance / stall / jump back), touch and stealth (content changed, size+mtime kept) mutations on inputs, outputs and outputs read back, HASH and METADATA mixed; the incremental model with exact HASH/METADATA semantics decides which calls may run and which (possibly documented-stale) value results. Sampled.', '7 C13'),
 'C14': ('fault_enumeration', 'For each sampled history the last build is re-run from the restored pre-state with an OSError (ENOSPC/EACCES/EIO rotated) at every pre-commit mutating call index (mkdtemp, mkdir, makedirs, rename, rmdir, cache open/write/close) plus torn cache writes. If the error leaves build(): C02 oracle + twin. If user code catches it: the model is told that exactly that API call failed in setup and the rest of the build (answers, results, tree, temp dir) must match. Fault indices enumerated per scenario (quick tier sub-sampled), scenarios sampled.', '7 C14'),
 'C15': ('exploration', '35 refusal classes (cache truncations, bit flips, wrong gzip/JSON/shape, dropped keys, other software, newer version, directory at the cache path, wrong build name, wrong-typed arguments of build_versioned/clean) applied on top of generated histories with outputs; the whole sandbox incl. temp base is compared bit for bit (bytes, mtime, inode) and no user function may be entered. Sampled histories x classes.', '7 C15'),
 'C16': ('exploration', 'Return values from a JSON grammar (unicode, nesting, floats, big ints, python-only shapes) and output names with spaces / non-ASCII / leading dots / long components at generated nesting positions; values served in later builds compared with exact concrete types, unchanged rebuild must run nothing, clean must remove what was recorded; cache-write failures (open/write/close/torn, with and without previous cache) enumerated per scenario: previous cache bytes back or no cache file.', '7 C16'),
 'C17': ('exploration', 'A detached simulated thread keeps calling builder methods on the builder of a root / subbuild / build_file function while the owner returns or raises, under seeded schedules; on the simulator\'s global event sequence: a call invoked after the owner\'s API call returned must raise RuntimeError; calls that returned normally must be in the record and refused calls must not (decided black-box by mutating what only the straggler read and rebuilding, both directions); a refused call must have no effect (tree, cache file). One known finding (KF1).', '7 C17'),
}
NOTE = ('Trusted: the reference model fbsim/model.py (a second, in-memory implementation of the documented semantics, ~600 lines), the interpreter that drives model and implementation identically, the kernel tmpfs. Small-scope universe (<=8 paths, <=3 levels, <=10 functions, <=8 steps). Sampling: a clean run is evidence, not proof. Not covered: Windows / case-insensitive file systems, symlinks, external changes during a build, process death, faults inside commit/rollback/clean (documented best-effort).')
TECH = 'deterministic simulation with fault injection: seeded scenario search against an executable reference model'
TECHX = {
 'C02': 'deterministic simulation: crash-point sweep per sampled history, rollback + twin-continuation oracle',
 'C14': 'deterministic simulation: injected OSError at every pre-commit mutating syscall index, model told which API call failed',
 'C09': 'deterministic simulation: seeded baton-passing thread scheduler (random / PCT / single-preemption) vs sequential reference model',
 'C08': 'deterministic simulation: duplicate placements vs reference model; seeded thread schedules racing for one key',
 'C17': 'deterministic simulation: straggler thread vs owner return under seeded schedules, event-sequence fence oracle',
 'C10': 'deterministic simulation: physical+virtual post-conditions per call, injected mkdir/rename/rmdir failures',
 'C16': 'deterministic simulation: write/read cycle through the real cache file, injected and torn cache writes',
}
checks = []
for prop in sorted(TEXT):
    cat, text, ref = TEXT[prop]
    assert campaigns.for_property(prop), prop
    checks.append({
        'property_id': prop,
        'quick_cmd': 'bin/check --property %s --tier quick' % prop,
        'thorough_cmd': 'bin/check --property %s --tier thorough' % prop,
        'evidence_file': 'evidence/%s.json' % prop,
        'replay_cmd_template': 'bin/check --replay {path}',
        'engine': 'fbsim',
        'level_claimed': {'category': cat, 'text': text,
                          'design_ref': 'DESIGN.md section ' + ref},
        'level_note': NOTE,
        'technique': TECHX.get(prop, TECH),
    })
man = {
 'version': 1,
 'setup_cmd': "/venv/bin/python -c \"import sys; sys.path[:0]=['/repo','/verif']; import file_builder, fbsim.check, fbsim.campaigns; print('setup ok')\"",
 'hooks': {
  'guard': 'FILE_BUILDER_VERIF',
  'enable': 'no source hooks: fbsim/seams.py substitutes proxies for the os / threading / open / gzip / shutil / tempfile attributes of the file_builder modules at run time (module attributes of the package only); the guard name is reserved and unused',
  'baseline_off_cmd': 'cd /repo && /venv/bin/python -m pytest -ra -q -p no:cacheprovider --timeout=900',
  'source_commits': [],
  'add_only': True,
 },
 'engines': [{'name': 'fbsim', 'path': 'fbsim/', 'serves_properties': sorted(TEXT),
              'kind_free_text': 'deterministic simulator: seeded scenario generator, interpreter of generated build programs, in-memory reference model, os/threading/gzip/tempfile seams with fault injection, baton-passing thread scheduler, delta-debugging shrinker, replay files'}],
 'checks': checks,
 'not_applicable': [
  {'property_id': 'C18', 'reason': 'JsonUtil.sanitize/is_equal/to_hashable are pure functions of their argument: no schedule, clock, I/O, fault or history for a simulator to control; input enumeration would not be deterministic simulation (the state-dependent use of these helpers through the API is covered by C07)'},
 ],
 'notes': 'All checks: exit 0 = held on everything explored (KNOWN-FINDING lines for findings listed in known_findings.json), exit 1 = VIOLATION line with replay file, exit 2 = harness error. VERIF_SEED selects the seed block, VERIF_BUDGET overrides the wall budget in seconds, VERIF_REPO the tree under test (default /repo). Genuine defects found so far were repaired by fix: commits in /repo (see known_findings.json and DESIGN.md section 8).',
}
json.dump(man, open(os.path.join(os.path.dirname(os.path.dirname(os.path.abspath(__file__))), 'MANIFEST.json'), 'w'), indent=1)
print('written', len(checks), 'checks')
